// Package shared is the refinement mapping for spec/SharedRead.tla (C20).
// It must be built with -race.  TLC enumerates the workloads (object kind,
// representation, op1 || op2 [|| op3]); this driver instantiates each on the
// real objects of every configuration (group / suite / scheme), runs the
// goroutines released by a barrier, compares every result with the value of
// the same operation run alone, and attributes the race detector's reports
// (GORACE log_path) to the workload that was running.
package shared

import (
	"bytes"
	"crypto/cipher"
	"encoding/hex"
	"encoding/json"
	"fmt"
	"hash"
	"io"
	"math/big"
	"os"
	"os/exec"
	"path/filepath"
	"runtime"
	"sort"
	"strings"
	"sync"
	"time"

	"go.dedis.ch/kyber/v4"
	"go.dedis.ch/kyber/v4/group/edwards25519"
	"go.dedis.ch/kyber/v4/group/edwards25519vartime"
	"go.dedis.ch/kyber/v4/group/p256"
	"go.dedis.ch/kyber/v4/pairing"
	"go.dedis.ch/kyber/v4/pairing/bls12381/circl"
	"go.dedis.ch/kyber/v4/pairing/bls12381/gnark"
	"go.dedis.ch/kyber/v4/pairing/bls12381/kilic"
	"go.dedis.ch/kyber/v4/pairing/bn254"
	"go.dedis.ch/kyber/v4/pairing/bn256"
	"go.dedis.ch/kyber/v4/proof"
	"go.dedis.ch/kyber/v4/proof/dleq"
	"go.dedis.ch/kyber/v4/share"
	"go.dedis.ch/kyber/v4/sign/bdn"
	"go.dedis.ch/kyber/v4/sign/bls"
	"go.dedis.ch/kyber/v4/sign/cosi"
	"go.dedis.ch/kyber/v4/sign/eddsa"
	"go.dedis.ch/kyber/v4/sign/schnorr"
	"go.dedis.ch/kyber/v4/util/random"
	"go.dedis.ch/kyber/v4/xof/blake2xb"

	"verifharness/internal/core"
	"verifharness/internal/groups"
)

// ops is the table of read-only operations on ONE freshly built shared object.
type ops map[string]func() string

// instance is one configuration of one object kind.
type instance struct {
	kind, config string
	cost         int // 1 cheap .. 3 slow (GT exponentiations, pairings)
	// build constructs the shared object(s) of one repetition: [0] = object A; [1] (if offered) = a DIFFERENT
	// object B going through the same code paths (and the same suite / scheme object) for the "distinct" workloads
	build func(rep string) []ops
	// unique: every result is a comma-separated list of random draws; all draws of all goroutines of a repetition
	// must be pairwise distinct (there is no sequential value to compare a true random source with)
	unique bool
}

func one(f func(rep string) ops) func(rep string) []ops {
	return func(rep string) []ops { return []ops{f(rep)} }
}

type Workload struct {
	Kind string   `json:"kind"`
	Rep  string   `json:"rep"`
	Objs string   `json:"objs"` // "same" | "distinct"
	Ops  []string `json:"ops"`
}

type Config struct {
	Prop       string
	In         string
	Seed       int64
	Goroutines int
	Reps       int
	Shards     int
	Shard      int // -1: parent
	Configs    string
	BudgetMs   int
	Out        string
	Tier       string
}

func hx(b []byte, err error) string {
	if err != nil {
		return "err:" + err.Error()
	}
	return hex.EncodeToString(b)
}

func stream(seed int64, label string) cipher.Stream {
	s := make([]byte, 32)
	core.Rng(seed, "shared", label).Read(s)
	return blake2xb.New(s)
}

// ---------------------------------------------------------------- points and scalars

func somePoint(g *groups.Info, k int64) kyber.Point {
	s := g.Group.Scalar().SetInt64(k)
	if g.CanBase {
		return g.NewPoint().Mul(s, nil)
	}
	// GT without Base: pair multiples of the generators
	p1 := g.Suite.G1().Point().Mul(s, nil)
	p2 := g.Suite.G2().Point().Base()
	return g.Fix(g.Suite.Pair(p1, p2))
}

func pointInstance(name string, seed int64) instance {
	g := groups.ByName(name)
	cost := 1
	if g.Slow {
		cost = 3
	} else if g.Sort == "G2" || g.Family == "qr" {
		cost = 2
	}
	type pv struct {
		a, b, sum kyber.Point
		enc       []byte
	}
	mkv := func(k1, k2 int64) pv {
		a, b := somePoint(g, k1), somePoint(g, k2)
		sum := g.NewPoint().Add(a, b)
		enc, err := sum.MarshalBinary()
		if err != nil {
			panic(err)
		}
		return pv{a, b, sum, enc}
	}
	vals := []pv{mkv(5+seed%1000, 11), mkv(17+seed%1000, 23)}
	sc := g.Group.Scalar().SetInt64(0x5a3c96)
	mk := func(rep string, v pv) ops {
		a, b, sum, enc := v.a, v.b, v.sum, v.enc
		var q kyber.Point
		if rep == "decoded" {
			q = g.NewPoint()
			if err := q.UnmarshalBinary(enc); err != nil {
				panic(err)
			}
		} else {
			q = g.NewPoint().Add(a, b) // result of arithmetic: not normalised
		}
		other := b
		o := ops{
			"MarshalBinary": func() string { return hx(q.MarshalBinary()) },
			"String":        func() string { return q.String() },
			"Equal":         func() string { return fmt.Sprint(q.Equal(other), q.Equal(sum)) },
			"EqualArg":      func() string { return fmt.Sprint(other.Equal(q), sum.Equal(q)) },
			"Clone":         func() string { return hx(q.Clone().MarshalBinary()) },
			"MarshalTo": func() string {
				var buf bytes.Buffer
				_, err := q.MarshalTo(&buf)
				return hx(buf.Bytes(), err)
			},
			"SetArg":     func() string { return hx(g.NewPoint().Set(q).MarshalBinary()) },
			"AddOperand": func() string { return hx(g.NewPoint().Add(q, other).MarshalBinary()) },
			"SubOperand": func() string { return hx(g.NewPoint().Sub(other, q).MarshalBinary()) },
			"NegOperand": func() string { return hx(g.NewPoint().Neg(q).MarshalBinary()) },
			"MulOperand": func() string { return hx(g.NewPoint().Mul(sc, q).MarshalBinary()) },
		}
		if g.CanEmbed {
			o["Data"] = func() string { d, err := q.Data(); return fmt.Sprintf("%x/%v", d, err != nil) }
		}
		return o
	}
	// private receivers are made with g.NewPoint() throughout, so the instance's flags (AllowVarTime) apply to them
	return instance{kind: "point", config: name, cost: cost, build: func(rep string) []ops {
		return []ops{mk(rep, vals[0]), mk(rep, vals[1])}
	}}
}

func scalarInstance(name string) instance {
	g := groups.ByName(name)
	var base kyber.Point
	if g.CanBase {
		base = g.NewPoint().Mul(g.Group.Scalar().SetInt64(9), nil)
	}
	mk := func(rep string, xv, yv int64) ops {
		x, y := g.Group.Scalar().SetInt64(xv), g.Group.Scalar().SetInt64(yv)
		prod := g.Group.Scalar().Mul(x, y)
		enc, err := prod.MarshalBinary()
		if err != nil {
			panic(err)
		}
		var s kyber.Scalar
		if rep == "unreduced" {
			// bytes encoding (order + small value): accepted by decoders that take any fixed-length string
			v := new(big.Int).Add(g.Order, big.NewInt(xv%1000+5))
			b := v.FillBytes(make([]byte, len(enc)))
			if g.ScalarLE {
				for i, j := 0, len(b)-1; i < j; i, j = i+1, j-1 {
					b[i], b[j] = b[j], b[i]
				}
			}
			s = g.Group.Scalar()
			if err := s.UnmarshalBinary(b); err != nil {
				return nil // this implementation rejects unreduced encodings: representation not offered
			}
		} else if rep == "decoded" {
			s = g.Group.Scalar()
			if err := s.UnmarshalBinary(enc); err != nil {
				panic(err)
			}
		} else {
			s = g.Group.Scalar().Mul(x, y)
		}
		o := ops{
			"MarshalBinary": func() string { return hx(s.MarshalBinary()) },
			"String":        func() string { return s.String() },
			"Equal":         func() string { return fmt.Sprint(s.Equal(y), s.Equal(prod)) },
			"Clone":         func() string { return hx(s.Clone().MarshalBinary()) },
			"MarshalTo": func() string {
				var buf bytes.Buffer
				_, err := s.MarshalTo(&buf)
				return hx(buf.Bytes(), err)
			},
			"SetArg":     func() string { return hx(g.Group.Scalar().Set(s).MarshalBinary()) },
			"AddOperand": func() string { return hx(g.Group.Scalar().Add(s, y).MarshalBinary()) },
			"MulOperand": func() string { return hx(g.Group.Scalar().Mul(y, s).MarshalBinary()) },
			"NegOperand": func() string { return hx(g.Group.Scalar().Neg(s).MarshalBinary()) },
			"InvOperand": func() string { return hx(g.Group.Scalar().Inv(s).MarshalBinary()) },
			"DivOperand": func() string { return hx(g.Group.Scalar().Div(y, s).MarshalBinary()) },
		}
		if base != nil && !g.Slow {
			o["MulPoint"] = func() string { return hx(g.NewPoint().Mul(s, base).MarshalBinary()) }
		}
		return o
	}
	return instance{kind: "scalar", config: g.ScalarTy, cost: 1, build: func(rep string) []ops {
		a, b := mk(rep, 123456789, -7), mk(rep, 987654321, -11)
		if a == nil || b == nil {
			return nil
		}
		return []ops{a, b}
	}}
}

// ---------------------------------------------------------------- suites

type fullSuite interface {
	Hash() hash.Hash
	XOF(seed []byte) kyber.XOF
	RandomStream() cipher.Stream
}

// newPairingSuite constructs a NEW pairing suite object (nothing has been called on it).
func newPairingSuite(key string) pairing.Suite {
	switch key {
	case "bn256":
		return bn256.NewSuite()
	case "bn254":
		return bn254.NewSuite()
	case "kilic":
		return kilic.NewBLS12381Suite()
	case "circl":
		return circl.NewSuite()
	case "gnark":
		return gnark.NewSuite()
	}
	panic("unknown pairing suite " + key)
}

// custom domain separation tags whose lengths (17, 44) are not allocator size classes
var (
	tagG1 = []byte("C20-DST-G1-17byte")
	tagG2 = []byte("C20-custom-domain-separation-tag-G2-44-bytes")
)

// configuredPairingSuite constructs a NEW pairing suite and configures it through its setters (rep "configured");
// nil when the back-end has no setters.
func configuredPairingSuite(key string) pairing.Suite {
	if len(tagG1) != 17 || len(tagG2) != 44 {
		panic("tag lengths")
	}
	switch key {
	case "bn254":
		s := bn254.NewSuite()
		s.SetDomainG1(dup(tagG1))
		s.SetDomainG2(dup(tagG2))
		return s
	case "kilic":
		s, ok := kilic.NewBLS12381Suite().(*kilic.Suite)
		if !ok {
			panic("kilic suite type")
		}
		s.SetDomainG1(dup(tagG1))
		s.SetDomainG2(dup(tagG2))
		return s
	}
	return nil
}

func dup(b []byte) []byte { return append([]byte(nil), b...) }

// newGroup constructs a NEW group / suite object for the PubPoly configurations.
func newGroup(name string) kyber.Group {
	switch name {
	case "ed25519":
		return edwards25519.NewBlakeSHA256Ed25519()
	case "edvt-proj":
		return new(edwards25519vartime.ProjectiveCurve).Init(edwards25519vartime.ParamEd25519(), false)
	case "p256":
		return p256.NewBlakeSHA256P256()
	case "bn256-g2":
		return bn256.NewSuite().G2()
	case "kilic-g1":
		return kilic.NewBLS12381Suite().G1()
	}
	panic("unknown group " + name)
}

// suiteInstance: mk constructs a NEW suite object; grp derives the group from it (for pairing suites that
// is itself a factory call on the suite and is made inside the operations).
//
//	rep "fresh": per repetition a new suite; NO call on it before the barrier; every operation makes its own
//	             first calls (RandomStream(), Hash(), XOF(), Point()/Scalar()) concurrently with the others and
//	             draws from the stream it was handed
//	rep "warm":  RandomStream() was called once by the constructing goroutine; that one stream object is shared
//	rep "configured": the suite was configured through its setters (custom DSTs) before being shared
func suiteInstance(config string, mk func() fullSuite, grp func(fullSuite) kyber.Group, canPick bool, mkConf func() fullSuite) instance {
	// decided on a private object: is hash-to-point offered (G1, and G2 for pairing suites)
	_, hashable := grp(mk()).Point().(kyber.HashablePoint)
	return instance{kind: "suite", config: config, cost: 1, build: func(rep string) []ops {
		var s fullSuite
		if rep == "configured" {
			if mkConf == nil {
				return nil // no setters: representation not offered
			}
			s = mkConf()
		} else {
			s = mk()
		}
		getStream := func() cipher.Stream { return s.RandomStream() }
		if rep == "warm" {
			rs := s.RandomStream()
			getStream = func() cipher.Stream { return rs }
		}
		o := ops{
			"RandomStream": func() string {
				rs := getStream()
				b := make([]byte, 32)
				rs.XORKeyStream(b, b)
				c := make([]byte, 5)
				rs.XORKeyStream(c, c)
				if bytes.Equal(b, make([]byte, 32)) {
					return "all-zero"
				}
				return "32+5 bytes"
			},
			"PickScalar": func() string {
				x := grp(s).Scalar().Pick(getStream())
				if _, err := x.MarshalBinary(); err != nil {
					return "err"
				}
				return "scalar"
			},
			"Hash": func() string {
				h := s.Hash()
				h.Write([]byte("shared read-only use"))
				return hex.EncodeToString(h.Sum(nil))
			},
			"XOF": func() string {
				x := s.XOF([]byte("seed"))
				b := make([]byte, 40)
				x.Read(b)
				return hex.EncodeToString(b)
			},
			"NewScalar": func() string { return hx(grp(s).Scalar().SetInt64(5).MarshalBinary()) },
			"NewPoint":  func() string { g := grp(s); return hx(g.Point().Mul(g.Scalar().SetInt64(3), nil).MarshalBinary()) },
		}
		if canPick {
			o["PickPoint"] = func() string {
				p := grp(s).Point().Pick(getStream())
				if _, err := p.MarshalBinary(); err != nil {
					return "err"
				}
				return "point"
			}
			o["NewKeyPair"] = func() string {
				g := grp(s)
				x := g.Scalar().Pick(s.RandomStream())
				p := g.Point().Mul(x, nil)
				if _, err := p.MarshalBinary(); err != nil {
					return "err"
				}
				return "pair"
			}
		}
		if hashable {
			o["HashToPoint"] = func() string {
				msg := []byte("hash to curve through a shared suite")
				out := hx(grp(s).Point().(kyber.HashablePoint).Hash(msg).MarshalBinary())
				if ps, ok := s.(pairing.Suite); ok {
					if h2, ok := ps.G2().Point().(kyber.HashablePoint); ok {
						out += hx(h2.Hash(msg).MarshalBinary())
					}
				}
				return out
			}
		}
		return []ops{o}
	}}
}

// ---------------------------------------------------------------- pairings

func pairingInstance(key string, seed int64) instance {
	var long pairing.Suite
	for _, g := range groups.All() {
		if g.SuiteKey == key {
			long = g.Suite
			break
		}
	}
	type pq struct {
		a1, b1, a2, b2 kyber.Point
		e1, e2         []byte
	}
	mkv := func(x, y int64) pq {
		k1, k2 := long.G1().Scalar().SetInt64(x), long.G1().Scalar().SetInt64(y)
		v := pq{a1: long.G1().Point().Mul(k1, nil), b1: long.G1().Point().Mul(k2, nil),
			a2: long.G2().Point().Mul(k2, nil), b2: long.G2().Point().Mul(k1, nil)}
		v.e1, _ = long.G1().Point().Add(v.a1, v.b1).MarshalBinary()
		v.e2, _ = long.G2().Point().Add(v.a2, v.b2).MarshalBinary()
		return v
	}
	vals := []pq{mkv(7+seed%100, 9), mkv(13+seed%100, 21)}
	return instance{kind: "pairing", config: key, cost: 3, build: func(rep string) []ops {
		s := long
		if rep == "fresh" {
			// a NEW suite object; the operands are decoded through the long-lived one, so the first calls on the
			// new suite (Pair, ValidatePairing, G1()/G2() factories) are made by the goroutines after the barrier
			s = newPairingSuite(key)
		}
		// both operand pairs go through the SAME suite object
		mk := func(v pq) ops {
			var p, q kyber.Point
			if rep == "decoded" || rep == "fresh" {
				p, q = long.G1().Point(), long.G2().Point()
				if err := p.UnmarshalBinary(v.e1); err != nil {
					panic(err)
				}
				if err := q.UnmarshalBinary(v.e2); err != nil {
					panic(err)
				}
			} else {
				p, q = long.G1().Point().Add(v.a1, v.b1), long.G2().Point().Add(v.a2, v.b2)
			}
			return ops{
				"Pair": func() string { return hx(s.Pair(p, q).MarshalBinary()) },
				"ValidatePairing": func() string {
					return fmt.Sprint(s.ValidatePairing(p, q, p, q), s.ValidatePairing(p, q, v.a1, q))
				},
				"MarshalG1": func() string {
					if rep == "fresh" { // factories of the new suite
						return hx(s.G1().Point().Set(p).MarshalBinary())
					}
					return hx(p.MarshalBinary())
				},
				"MarshalG2": func() string {
					if rep == "fresh" {
						return hx(s.G2().Point().Set(q).MarshalBinary())
					}
					return hx(q.MarshalBinary())
				},
			}
		}
		return []ops{mk(vals[0]), mk(vals[1])}
	}}
}

// ---------------------------------------------------------------- masks

func bdnMaskInstance(key string, seed int64) instance {
	var s pairing.Suite
	for _, g := range groups.All() {
		if g.SuiteKey == key {
			s = g.Suite
			break
		}
	}
	rs := stream(seed, "bdn"+key)
	var pubs []kyber.Point
	for i := 0; i < 5; i++ {
		_, p := bdn.NewKeyPair(s, rs)
		pubs = append(pubs, p)
	}
	return instance{kind: "bdnmask", config: key, cost: 3, build: one(func(rep string) ops {
		fs := newPairingSuite(key) // rep "fresh": the suite used by the operations is new as well
		m, err := bdn.NewMask(s.G2(), pubs, nil)
		if err != nil {
			panic(err)
		}
		for _, i := range []int{0, 2, 3} {
			if err := m.SetBit(i, true); err != nil {
				panic(err)
			}
		}
		return ops{
			"Clone": func() string {
				c := m.Clone()
				_ = c.SetBit(1, true) // writes the clone only
				_ = c.SetBit(0, false)
				return hex.EncodeToString(c.Mask())
			},
			"Mask":              func() string { return hex.EncodeToString(m.Mask()) },
			"#observe":          func() string { return hex.EncodeToString(m.Mask()) + fmt.Sprint(m.CountEnabled(), m.CountTotal()) },
			"Publics":           func() string { return fmt.Sprint(len(m.Publics())) + hx(m.Publics()[4].MarshalBinary()) },
			"Participants":      func() string { pp := m.Participants(); return fmt.Sprint(len(pp)) + hx(pp[1].MarshalBinary()) },
			"CountEnabled":      func() string { return fmt.Sprint(m.CountEnabled(), m.CountTotal(), m.Len()) },
			"IndexOfNthEnabled": func() string { return fmt.Sprint(m.IndexOfNthEnabled(1), m.NthEnabledAtIndex(3)) },
			"AggregatePublicKeys": func() string {
				p, err := bdn.AggregatePublicKeys(fs, m)
				if err != nil {
					return "err:" + err.Error()
				}
				return hx(p.MarshalBinary())
			},
		}
	})}
}

func cosiInstance(seed int64) instance {
	suite := edwards25519.NewBlakeSHA256Ed25519WithRand(stream(seed, "cosi"))
	n := 3
	var priv []kyber.Scalar
	var pubs []kyber.Point
	for i := 0; i < n; i++ {
		x := suite.Scalar().Pick(suite.RandomStream())
		priv = append(priv, x)
		pubs = append(pubs, suite.Point().Mul(x, nil))
	}
	msg := []byte("cosi message")
	var masks []*cosi.Mask
	var bm [][]byte
	var vs []kyber.Scalar
	var Vs []kyber.Point
	for i := 0; i < n; i++ {
		m, err := cosi.NewMask(suite, pubs, pubs[i])
		if err != nil {
			panic(err)
		}
		masks = append(masks, m)
		bm = append(bm, m.Mask())
		v, V := cosi.Commit(suite)
		vs, Vs = append(vs, v), append(Vs, V)
	}
	aggV, aggMask, err := cosi.AggregateCommitments(suite, Vs, bm)
	if err != nil {
		panic(err)
	}
	var rs []kyber.Scalar
	for i := 0; i < n; i++ {
		if err := masks[i].SetMask(aggMask); err != nil {
			panic(err)
		}
		c, err := cosi.Challenge(suite, aggV, masks[i].AggregatePublic, msg)
		if err != nil {
			panic(err)
		}
		r, err := cosi.Response(suite, priv[i], vs[i], c)
		if err != nil {
			panic(err)
		}
		rs = append(rs, r)
	}
	aggr, err := cosi.AggregateResponses(suite, rs)
	if err != nil {
		panic(err)
	}
	sig, err := cosi.Sign(suite, aggV, aggr, masks[0])
	if err != nil {
		panic(err)
	}
	return instance{kind: "cosimask", config: "ed25519", cost: 1, build: one(func(rep string) ops {
		suite := edwards25519.NewBlakeSHA256Ed25519() // rep "fresh": a new suite object per repetition
		m, err := cosi.NewMask(suite, pubs, nil)
		if err != nil {
			panic(err)
		}
		if err := m.SetMask(aggMask); err != nil {
			panic(err)
		}
		return ops{
			"Mask":         func() string { return hex.EncodeToString(m.Mask()) },
			"CountEnabled": func() string { return fmt.Sprint(m.CountEnabled(), m.CountTotal(), m.Len()) },
			"IndexEnabled": func() string { b, err := m.IndexEnabled(2); return fmt.Sprint(b, err) },
			"KeyEnabled":   func() string { b, err := m.KeyEnabled(pubs[1]); return fmt.Sprint(b, err) },
			"Verify":       func() string { return fmt.Sprint(cosi.Verify(suite, pubs, msg, sig, cosi.CompletePolicy{})) },
		}
	})}
}

// ---------------------------------------------------------------- public polynomials

func pubPolyInstance(name string, seed int64) instance {
	g := groups.ByName(name)
	rs := stream(seed, "poly"+name)
	pri := share.NewPriPoly(g.Group, 3, nil, rs)
	shares := pri.Shares(5)
	base := g.NewPoint().Base()
	_, commits := pri.Commit(base).Info()
	cost := 1
	if g.Sort != "" {
		cost = 2
	}
	return instance{kind: "pubpoly", config: name, cost: cost, build: one(func(rep string) ops {
		cs := make([]kyber.Point, len(commits))
		for i := range commits {
			cs[i] = commits[i].Clone()
		}
		// rep "fresh": a new group / suite object behind the polynomial; rep "nilbase": the standard base given as nil
		// (as Commit(nil) / NewPubPoly(g, nil, ...) do), nothing queried before the object is shared
		pbase := base
		if rep == "nilbase" {
			pbase = nil
		}
		pub := share.NewPubPoly(newGroup(name), pbase, cs)
		pub2 := pri.Commit(pbase)
		info := func() string {
			b, c := pub.Info()
			out := "base=nil"
			if b != nil {
				out = "base=" + hx(b.MarshalBinary())
			}
			for _, ci := range c {
				out += "," + hx(ci.MarshalBinary())
			}
			return out + fmt.Sprint(",t=", pub.Threshold())
		}
		return ops{
			"Eval": func() string { s := pub.Eval(2); return fmt.Sprint(s.I) + hx(s.V.MarshalBinary()) },
			"Check": func() string {
				return fmt.Sprint(pub.Check(shares[1]), pub.Check(&share.PriShare{I: 2, V: shares[1].V}))
			},
			"Commit":   func() string { return hx(pub.Commit().MarshalBinary()) },
			"Info":     info,
			"#observe": info, // every observable of the object the public API exposes
			"Equal":    func() string { return fmt.Sprint(pub.Equal(pub2), pub2.Equal(pub)) },
			"Shares": func() string {
				ss := pub.Shares(4)
				return hx(ss[3].V.MarshalBinary())
			},
		}
	})}
}

// ---------------------------------------------------------------- verifiers

var vmsg, vwrong = []byte("message to verify"), []byte("another message")
var vmsg2 = []byte("a second, longer message that is verified through the same scheme object")

// vcase is one (key, message, signature) triple; a verifier instance offers two of them through ONE suite / scheme
// object ("distinct" workloads: different keys and messages concurrently through the same code path).
type vcase struct {
	verify func(m []byte) error
	key    kyber.Point
	msg    []byte
	sign   func(m []byte) ([]byte, error) // deterministic signing through the shared scheme object (nil: not offered)
}

func verifier(config string, cost int, build func(rep string) []vcase) instance {
	return instance{kind: "verifier", config: config, cost: cost, build: func(rep string) []ops {
		var out []ops
		for _, c := range build(rep) {
			c := c
			o := ops{
				"Verify":         func() string { return fmt.Sprint(c.verify(c.msg)) },
				"VerifyWrongMsg": func() string { return fmt.Sprint(c.verify(vwrong) != nil) },
				"MarshalKey":     func() string { return hx(c.key.MarshalBinary()) },
			}
			if c.sign != nil {
				o["Sign"] = func() string { return hx(c.sign(c.msg)) }
			}
			out = append(out, o)
		}
		return out
	}}
}

func decodeKey(g kyber.Group, enc []byte) kyber.Point {
	key := g.Point()
	if err := key.UnmarshalBinary(enc); err != nil {
		panic(err)
	}
	return key
}

func plainVerifier(name string, seed int64) instance {
	msgs := [][]byte{vmsg, vmsg2}
	switch name {
	case "schnorr/ed25519", "schnorr/p256":
		var s schnorr.Suite = p256.NewBlakeSHA256P256()
		if name == "schnorr/ed25519" {
			s = edwards25519.NewBlakeSHA256Ed25519WithRand(stream(seed, "sch-ed"))
		}
		var encs, sigs [][]byte
		for i, m := range msgs {
			x := s.Scalar().Pick(stream(seed, fmt.Sprint(name, i)))
			sig, err := schnorr.Sign(s, x, m)
			if err != nil {
				panic(err)
			}
			enc, _ := s.Point().Mul(x, nil).MarshalBinary()
			encs, sigs = append(encs, enc), append(sigs, sig)
		}
		return verifier(name, 1, func(rep string) []vcase {
			if rep != "fresh" {
				return nil
			}
			// rep "fresh": a new suite and a new scheme object per repetition
			var fs schnorr.Suite = p256.NewBlakeSHA256P256()
			if name == "schnorr/ed25519" {
				fs = edwards25519.NewBlakeSHA256Ed25519()
			}
			sch := schnorr.NewScheme(fs)
			var out []vcase
			for i := range msgs {
				key, sig := decodeKey(s, encs[i]), sigs[i]
				out = append(out, vcase{verify: func(m []byte) error { return sch.Verify(key, m, sig) }, key: key, msg: msgs[i]})
			}
			return out
		})
	case "eddsa":
		g := edwards25519.NewBlakeSHA256Ed25519()
		var encs, sigs [][]byte
		for i, m := range msgs {
			e := eddsa.NewEdDSA(stream(seed, fmt.Sprint("eddsa", i)))
			sig, err := e.Sign(m)
			if err != nil {
				panic(err)
			}
			enc, _ := e.Public.MarshalBinary()
			encs, sigs = append(encs, enc), append(sigs, sig)
		}
		return verifier(name, 1, func(rep string) []vcase {
			if rep != "fresh" {
				return nil
			}
			var out []vcase
			for i := range msgs {
				key, sig := decodeKey(g, encs[i]), sigs[i]
				out = append(out, vcase{verify: func(m []byte) error { return eddsa.Verify(key, m, sig) }, key: key, msg: msgs[i]})
			}
			return out
		})
	case "dleq/ed25519":
		// DLEQ proof verifier with shared points (the message selects the statement that is checked)
		s := edwards25519.NewBlakeSHA256Ed25519WithRand(stream(seed, "dleq"))
		G := s.Point().Base()
		H := s.Point().Mul(s.Scalar().SetInt64(77), nil)
		type pf struct {
			pr *dleq.Proof
			eG []byte
			xH kyber.Point
		}
		var pfs []pf
		for i := range msgs {
			x := s.Scalar().Pick(stream(seed, fmt.Sprint("dleq-x", i)))
			pr, xG, xH, err := dleq.NewDLEQProof(s, G, H, x)
			if err != nil {
				panic(err)
			}
			eG, _ := xG.MarshalBinary()
			pfs = append(pfs, pf{pr, eG, xH})
		}
		return verifier(name, 1, func(rep string) []vcase {
			if rep != "fresh" {
				return nil
			}
			fs := edwards25519.NewBlakeSHA256Ed25519() // rep "fresh": a new suite object per repetition
			var out []vcase
			for i := range msgs {
				p, k, good := pfs[i], decodeKey(s, pfs[i].eG), msgs[i]
				out = append(out, vcase{verify: func(m []byte) error {
					if bytes.Equal(m, good) {
						return p.pr.Verify(fs, G, H, k, p.xH)
					}
					return p.pr.Verify(fs, G, H, k, G)
				}, key: k, msg: good})
			}
			return out
		})
	}
	panic("unknown verifier " + name)
}

// bls / bdn on a pairing suite (signatures in G1, keys in G2): two keys, messages and signatures through ONE
// scheme object on a new suite
func blsVerifier(sk string, seed int64, useBdn bool) instance {
	var s pairing.Suite
	for _, g := range groups.All() {
		if g.SuiteKey == sk {
			s = g.Suite
			break
		}
	}
	msgs := [][]byte{vmsg, vmsg2}
	type mat struct {
		xs         []kyber.Scalar
		encs, sigs [][]byte
	}
	// keys and signatures per representation: default domain tags, and tags set through the suite's setters
	mk := func(ss pairing.Suite) *mat {
		if ss == nil {
			return nil
		}
		m := &mat{}
		scheme := bls.NewSchemeOnG1(ss)
		for i, msg := range msgs {
			x, X := scheme.NewKeyPair(stream(seed, fmt.Sprint("bls", sk, i)))
			var sig []byte
			var err error
			if useBdn {
				sig, err = bdn.Sign(ss, x, msg)
			} else {
				sig, err = scheme.Sign(x, msg)
			}
			if err != nil {
				panic(err)
			}
			enc, _ := X.MarshalBinary()
			m.xs, m.encs, m.sigs = append(m.xs, x), append(m.encs, enc), append(m.sigs, sig)
		}
		return m
	}
	mats := map[string]*mat{"fresh": mk(s), "configured": mk(configuredPairingSuite(sk))}
	name := "bls/" + sk
	if useBdn {
		name = "bdn/" + sk
	}
	return verifier(name, 3, func(rep string) []vcase {
		m := mats[rep]
		if m == nil {
			return nil // no setters: representation not offered
		}
		// a new suite (rep "configured": configured through its setters before being shared) and a new scheme object
		fs := newPairingSuite(sk)
		if rep == "configured" {
			fs = configuredPairingSuite(sk)
		}
		sch := bls.NewSchemeOnG1(fs)
		var out []vcase
		for i := range msgs {
			key, sig, x := decodeKey(s.G2(), m.encs[i]), m.sigs[i], m.xs[i]
			c := vcase{key: key, msg: msgs[i]}
			if useBdn {
				c.verify = func(mm []byte) error { return bdn.Verify(fs, key, mm, sig) }
				c.sign = func(mm []byte) ([]byte, error) { return bdn.Sign(fs, x, mm) }
			} else {
				c.verify = func(mm []byte) error { return sch.Verify(key, mm, sig) }
				c.sign = func(mm []byte) ([]byte, error) { return sch.Sign(x, mm) }
			}
			out = append(out, c)
		}
		return out
	})
}

// ---------------------------------------------------------------- shared random streams

// goReader is an entropy source written in Go (so that the race detector sees what is done with the bytes it
// delivers); it is itself safe for concurrent use and never repeats a block.
type goReader struct {
	mu  sync.Mutex
	ctr uint64
	key [32]byte
}

func (r *goReader) Read(p []byte) (int, error) {
	r.mu.Lock()
	defer r.mu.Unlock()
	for i := range p {
		if i%8 == 0 {
			r.ctr++
		}
		p[i] = byte(r.ctr>>(8*(uint(i)%8))) ^ r.key[i%32] ^ byte(i*131)
	}
	return len(p), nil
}

var _ io.Reader = (*goReader)(nil)

// streamInstance: ONE stream object per repetition, drawn from by all goroutines; every operation draws several
// times; all draws of a repetition must be pairwise distinct.
func streamInstance(config string, seed int64) instance {
	grp := edwards25519.NewBlakeSHA256Ed25519()
	return instance{kind: "stream", config: config, cost: 1, unique: true, build: one(func(rep string) ops {
		var rs cipher.Stream
		var pick kyber.Group = grp
		switch config {
		case "random.New":
			rs = random.New() // default source
		case "random.New-goreaders":
			a, b := &goReader{}, &goReader{}
			core.Rng(seed, "goreader-a").Read(a.key[:])
			core.Rng(seed, "goreader-b").Read(b.key[:])
			rs = random.New(a, b)
		case "ed25519-WithRand":
			s := edwards25519.NewBlakeSHA256Ed25519WithRand(random.New())
			rs, pick = s.RandomStream(), s
		case "ed25519-WithRand-goreader":
			a := &goReader{}
			core.Rng(seed, "goreader-c").Read(a.key[:])
			s := edwards25519.NewBlakeSHA256Ed25519WithRand(random.New(a))
			rs, pick = s.RandomStream(), s
		case "bn256-NewSuiteRand":
			s := bn256.NewSuiteRand(random.New())
			rs, pick = s.RandomStream(), s.G1()
		case "bn254-NewSuiteRand":
			s := bn254.NewSuiteRand(random.New())
			rs, pick = s.RandomStream(), s.G1()
		default:
			panic("unknown stream configuration " + config)
		}
		draws := func(n, l int) string {
			var out []string
			for i := 0; i < n; i++ {
				b := make([]byte, l)
				rs.XORKeyStream(b, b)
				out = append(out, hex.EncodeToString(b[:32]))
			}
			return strings.Join(out, ",")
		}
		return ops{
			"Draw":     func() string { return draws(24, 32) },
			"DrawLong": func() string { return draws(8, 200) },
			"PickScalar": func() string {
				var out []string
				for i := 0; i < 12; i++ {
					out = append(out, hx(pick.Scalar().Pick(rs).MarshalBinary()))
				}
				return strings.Join(out, ",")
			},
		}
	})}
}

// ---------------------------------------------------------------- shared predicates

// predicateInstance: ONE predicate tree per repetition; rep1 is part of three statements (s1 = rep1 AND rep2,
// s2 = rep3 AND rep1, or = rep1 OR rep3), so its variables have different positions in different statements. Every
// goroutine builds its own Prover / Verifier from the shared predicates.
func predicateInstance(name string, seed int64) instance {
	mkSuite := func() proof.Suite {
		if name == "p256" {
			return p256.NewBlakeSHA256P256()
		}
		return edwards25519.NewBlakeSHA256Ed25519()
	}
	su := mkSuite()
	rs := stream(seed, "pred"+name)
	x, y, z := su.Scalar().Pick(rs), su.Scalar().Pick(rs), su.Scalar().Pick(rs)
	B := su.Point().Base()
	H := su.Point().Mul(su.Scalar().SetInt64(41), nil)
	points := map[string]kyber.Point{"B": B, "H": H, "X": su.Point().Mul(x, B), "Y": su.Point().Mul(y, H),
		"Z": su.Point().Add(su.Point().Mul(z, B), su.Point().Mul(x, H))}
	secrets := map[string]kyber.Scalar{"x": x, "y": y, "z": z}
	type stmt struct {
		pred   proof.Predicate
		choice map[proof.Predicate]int
	}
	mkTree := func() map[string]stmt {
		rep1 := proof.Rep("X", "x", "B")
		rep2 := proof.Rep("Y", "y", "H")
		rep3 := proof.Rep("Z", "z", "B", "x", "H")
		or := proof.Or(rep1, rep3)
		return map[string]stmt{"Rep": {rep1, nil}, "S1": {proof.And(rep1, rep2), nil}, "S2": {proof.And(rep3, rep1), nil},
			"Or": {or, map[proof.Predicate]int{or: 1}}}
	}
	// valid proofs made once from a private tree
	proofs := map[string][]byte{}
	for n, st := range mkTree() {
		p, err := proof.HashProve(su, "C20-"+n, st.pred.Prover(su, secrets, points, st.choice))
		if err != nil {
			panic(err)
		}
		proofs[n] = p
	}
	return instance{kind: "predicate", config: name, cost: 2, build: one(func(rep string) ops {
		tree := mkTree()
		fs := mkSuite()
		verify := func(n string) func() string {
			return func() string {
				return fmt.Sprint(proof.HashVerify(fs, "C20-"+n, tree[n].pred.Verifier(fs, points), proofs[n]))
			}
		}
		prove := func(n string) func() string {
			return func() string {
				st := tree[n]
				p, err := proof.HashProve(fs, "C20-"+n, st.pred.Prover(fs, secrets, points, st.choice))
				if err != nil {
					return "prove: " + err.Error()
				}
				return fmt.Sprint(proof.HashVerify(fs, "C20-"+n, st.pred.Verifier(fs, points), p))
			}
		}
		return ops{
			"VerifyRep": verify("Rep"), "VerifyS1": verify("S1"), "VerifyS2": verify("S2"), "VerifyOr": verify("Or"),
			"ProveS1": prove("S1"), "ProveS2": prove("S2"), "ProveOr": prove("Or"),
			"String": func() string { return tree["S1"].pred.String() + tree["S2"].pred.String() + tree["Or"].pred.String() },
		}
	})}
}

// ---------------------------------------------------------------- registry

// entry names a configuration without building it (building signs, pairs, hashes to curves ...).
type entry struct {
	kind, config string
	mk           func() instance
}

// estCost orders configurations for shard balancing (3 = slow arithmetic under the race detector).
func estCost(e entry) int {
	c := e.config
	switch {
	case strings.Contains(c, "edvt"), strings.HasSuffix(c, "-gt"), e.kind == "pairing", e.kind == "bdnmask",
		strings.HasPrefix(c, "bls/"), strings.HasPrefix(c, "bdn/"), c == "modint-ed":
		return 3
	case strings.HasSuffix(c, "-g2"), strings.HasPrefix(c, "qr"), strings.HasPrefix(c, "p256"), strings.HasPrefix(c, "modint"):
		return 2
	}
	return 1
}

func registry(seed int64) []entry {
	var out []entry
	seenTy := map[string]bool{}
	for _, g := range groups.All() {
		name := g.Name
		out = append(out, entry{"point", name, func() instance { return pointInstance(name, seed) }})
		if !seenTy[g.ScalarTy] {
			seenTy[g.ScalarTy] = true
			out = append(out, entry{"scalar", g.ScalarTy, func() instance { return scalarInstance(name) }})
		}
	}
	self := func(s fullSuite) kyber.Group { return s.(kyber.Group) }
	out = append(out,
		entry{"suite", "ed25519", func() instance {
			return suiteInstance("ed25519", func() fullSuite { return edwards25519.NewBlakeSHA256Ed25519() }, self, true, nil)
		}},
		entry{"suite", "p256", func() instance {
			return suiteInstance("p256", func() fullSuite { return p256.NewBlakeSHA256P256() }, self, true, nil)
		}},
		entry{"suite", "qr512", func() instance {
			return suiteInstance("qr512", func() fullSuite { return p256.NewBlakeSHA256QR512() }, self, true, nil)
		}},
		entry{"suite", "bn256-g1", func() instance {
			return suiteInstance("bn256-g1", func() fullSuite { return bn256.NewSuiteG1() }, self, true, nil)
		}},
		entry{"suite", "bn256-g2", func() instance {
			return suiteInstance("bn256-g2", func() fullSuite { return bn256.NewSuiteG2() }, self, true, nil)
		}},
		entry{"suite", "bn254-g1", func() instance {
			return suiteInstance("bn254-g1", func() fullSuite { return bn254.NewSuiteG1() }, self, true, nil)
		}},
	)
	seen := map[string]bool{}
	for _, g := range groups.All() {
		if g.Suite == nil || seen[g.SuiteKey] {
			continue
		}
		seen[g.SuiteKey] = true
		key := g.SuiteKey
		if key == "kilic" || key == "circl" || key == "gnark" || key == "bn254" {
			out = append(out, entry{"suite", key, func() instance {
				var conf func() fullSuite
				if configuredPairingSuite(key) != nil {
					conf = func() fullSuite { return configuredPairingSuite(key) }
				}
				return suiteInstance(key, func() fullSuite { return newPairingSuite(key) },
					func(s fullSuite) kyber.Group { return s.(pairing.Suite).G1() }, true, conf)
			}})
		}
		out = append(out, entry{"pairing", key, func() instance { return pairingInstance(key, seed) }})
		if key == "bn256" || key == "kilic" {
			out = append(out, entry{"bdnmask", key, func() instance { return bdnMaskInstance(key, seed) }})
		}
		out = append(out, entry{"verifier", "bls/" + key, func() instance { return blsVerifier(key, seed, false) }})
		if key == "bn256" || key == "kilic" {
			out = append(out, entry{"verifier", "bdn/" + key, func() instance { return blsVerifier(key, seed, true) }})
		}
	}
	out = append(out, entry{"cosimask", "ed25519", func() instance { return cosiInstance(seed) }})
	for _, n := range []string{"ed25519", "edvt-proj", "p256", "bn256-g2", "kilic-g1"} {
		name := n
		out = append(out, entry{"pubpoly", name, func() instance { return pubPolyInstance(name, seed) }})
	}
	for _, n := range []string{"random.New", "random.New-goreaders", "ed25519-WithRand", "ed25519-WithRand-goreader",
		"bn256-NewSuiteRand", "bn254-NewSuiteRand"} {
		name := n
		out = append(out, entry{"stream", name, func() instance { return streamInstance(name, seed) }})
	}
	for _, n := range []string{"ed25519", "p256"} {
		name := n
		out = append(out, entry{"predicate", name, func() instance { return predicateInstance(name, seed) }})
	}
	for _, n := range []string{"schnorr/ed25519", "schnorr/p256", "eddsa", "dleq/ed25519"} {
		name := n
		out = append(out, entry{"verifier", name, func() instance { return plainVerifier(name, seed) }})
	}
	return out
}

// ---------------------------------------------------------------- race log

type report struct {
	Text   string
	Stacks [2][]string // function names of the two access stacks, innermost first
}

func raceLogPath() string {
	for _, kv := range strings.Fields(os.Getenv("GORACE")) {
		if strings.HasPrefix(kv, "log_path=") {
			return fmt.Sprintf("%s.%d", strings.TrimPrefix(kv, "log_path="), os.Getpid())
		}
	}
	return ""
}

func parseReports(text string) []report {
	var out []report
	for _, blk := range strings.Split(text, "==================") {
		if !strings.Contains(blk, "WARNING: DATA RACE") {
			continue
		}
		r := report{Text: strings.TrimSpace(blk)}
		sec := -1
		for _, ln := range strings.Split(blk, "\n") {
			t := strings.TrimSpace(ln)
			switch {
			case strings.HasPrefix(t, "Goroutine "):
				sec = 9 // creation stacks: not access stacks
			case strings.Contains(t, " by goroutine ") || strings.Contains(t, " by main goroutine"):
				sec++
			case strings.HasPrefix(ln, "  ") && !strings.HasPrefix(ln, "      ") && t != "" && sec >= 0 && sec < 2:
				fn := t
				if i := strings.LastIndex(fn, "("); i > 0 && strings.HasSuffix(fn, ")") {
					fn = fn[:i]
				}
				r.Stacks[sec] = append(r.Stacks[sec], fn)
			}
		}
		out = append(out, r)
	}
	return out
}

const maxRacyKeys = 10

const kyberPrefix = "go.dedis.ch/kyber/v4/"

// apiFrame returns the outermost kyber frame of an access stack (the API call made by the harness), shortened.
func apiFrame(stack []string) string {
	for i := len(stack) - 1; i >= 0; i-- {
		if strings.HasPrefix(stack[i], kyberPrefix) {
			f := strings.TrimPrefix(stack[i], kyberPrefix)
			f = strings.TrimSuffix(f, "-fm")
			return f
		}
	}
	return ""
}

// ---------------------------------------------------------------- running

type outcome struct {
	Evaluations int              `json:"evaluations"`
	IDs         []string         `json:"ids"`
	Violations  []core.Violation `json:"violations"`
	Harness     []string         `json:"harness_races"`
	Skipped     map[string]int   `json:"skipped"`
	Samples     []any            `json:"samples"`
	Runs        int              `json:"op_runs"`
	Timing      []string         `json:"timing"`
}

func loadWorkloads(path string) ([]Workload, error) {
	var wls []Workload
	seen := map[string]bool{}
	err := core.ReadLines(path, func(l []byte) error {
		var w Workload
		if err := json.Unmarshal(l, &w); err != nil {
			return err
		}
		k := string(l)
		if !seen[k] {
			seen[k] = true
			wls = append(wls, w)
		}
		return nil
	})
	// TLC's print order is not deterministic with several workers: fix the order here
	sort.SliceStable(wls, func(i, j int) bool {
		a, b := wls[i], wls[j]
		if a.Kind != b.Kind {
			return a.Kind < b.Kind
		}
		if a.Rep != b.Rep {
			return a.Rep < b.Rep
		}
		if a.Objs != b.Objs {
			return a.Objs > b.Objs // "same" first
		}
		return strings.Join(a.Ops, "|") < strings.Join(b.Ops, "|")
	})
	return wls, err
}

// runShard executes, sequentially, every workload on the instances assigned to this shard.
func runShard(cfg Config, wls []Workload) (*outcome, error) {
	out := &outcome{Skipped: map[string]int{}}
	logPath := raceLogPath()
	var logPos int64
	newReports := func() []report {
		if logPath == "" {
			return nil
		}
		b, err := os.ReadFile(logPath)
		if err != nil || int64(len(b)) <= logPos {
			return nil
		}
		txt := string(b[logPos:])
		logPos = int64(len(b))
		return parseReports(txt)
	}
	reg := registry(cfg.Seed)
	filter := map[string]bool{}
	for _, c := range strings.Split(cfg.Configs, ",") {
		if c != "" {
			filter[c] = true
		}
	}
	var sel []entry
	for _, ent := range reg {
		if len(filter) > 0 && !filter[ent.kind+"/"+ent.config] && !filter[ent.config] && !filter[ent.kind] {
			continue
		}
		sel = append(sel, ent)
	}
	sort.SliceStable(sel, func(i, j int) bool { return estCost(sel[i]) > estCost(sel[j]) })
	budget := time.Duration(cfg.BudgetMs) * time.Millisecond
	for n, ent := range sel {
		if n%cfg.Shards != cfg.Shard {
			continue
		}
		t0 := time.Now()
		inst := ent.mk()
		runs0 := out.Runs
		gor := cfg.Goroutines
		if estCost(ent) == 3 && gor > 4 {
			gor = 4
		}
		type seqv struct {
			val string
			det bool
		}
		seq := map[string]seqv{} // rep/op -> value of the operation run alone on a fresh object
		prist := map[string]string{}
		pristine := func(rep string, v int) string { // observables of an object nothing was called on
			k := fmt.Sprint(rep, "/", v)
			if _, ok := prist[k]; !ok {
				prist[k] = inst.build(rep)[v]["#observe"]()
			}
			return prist[k]
		}
		reps := cfg.Reps
		racy := map[string]bool{}
		for _, wl := range wls {
			if wl.Kind != inst.kind {
				continue
			}
			if len(racy) >= maxRacyKeys {
				// the configuration is established as racy; every further report costs ~0.1-1 s of symbolisation
				out.Skipped["configuration already has "+fmt.Sprint(maxRacyKeys)+" distinct race keys"]++
				continue
			}
			// sequential values, each operation on its own fresh object
			probe := inst.build(wl.Rep)
			nobj := 1
			if wl.Objs == "distinct" {
				nobj = 2
			}
			if len(probe) == 0 {
				out.Skipped["representation not offered by this configuration"]++
				continue
			}
			if len(probe) < nobj {
				out.Skipped["configuration offers no second object"]++
				continue
			}
			missing := false
			for _, op := range wl.Ops {
				if probe[0][op] == nil {
					missing = true
				}
			}
			if missing {
				out.Skipped["operation not offered by this configuration"]++
				continue
			}
			// goroutine gi runs operation gi mod n on object (gi div n) mod nobj: with "distinct" every
			// (operation, object) pair is in flight, the objects being shared as well
			slot := func(gi int) (string, int) { return wl.Ops[gi%len(wl.Ops)], (gi / len(wl.Ops)) % nobj }
			want := map[string]string{}
			det := map[string]bool{}
			for _, op := range wl.Ops {
				for v := 0; v < nobj; v++ {
					k := fmt.Sprint(wl.Rep, "/", v, "/", op)
					sv, ok := seq[k]
					if !ok {
						o1 := inst.build(wl.Rep)[v]
						a, b := o1[op](), inst.build(wl.Rep)[v][op]()
						sv = seqv{a, a == b && !inst.unique} // random draws are not compared
						seq[k] = sv
						// run alone, a read-only call leaves every observable of the object as it was
						if ob := o1["#observe"]; ob != nil {
							if got, untouched := ob(), pristine(wl.Rep, v); got != untouched {
								out.Violations = append(out.Violations, core.Violation{
									Key:  fmt.Sprintf("%s/%s/%s/%s/object-changed", cfg.Prop, inst.kind, inst.config, op),
									What: "a read-only call changed an observable of the object it was called on (sequential run, no other goroutine)",
									Detail: map[string]any{"behaviour": wl, "config": inst.config, "op": op, "after": got,
										"untouched": untouched},
								})
							}
						}
					}
					want[fmt.Sprint(v, "/", op)], det[fmt.Sprint(v, "/", op)] = sv.val, sv.det
				}
			}
			id := fmt.Sprintf("%s/%s/%s/%s/%s", inst.kind, inst.config, wl.Rep, wl.Objs, strings.Join(wl.Ops, "|"))
			out.Evaluations++
			out.IDs = append(out.IDs, id)
			if len(out.Samples) < 2 && out.Evaluations%37 == 1 {
				out.Samples = append(out.Samples, map[string]any{"workload": wl, "config": inst.config, "goroutines": gor, "sequential": want})
			}
			newReports() // drain anything caused by set-up (attributed below as harness noise if any)
			mism := map[string][2]string{}
			var panics, dups []string
			var changed [2]string
			tw := time.Now()
			done := 0
			for r := 0; r < reps && (r < 1 || time.Since(tw) < budget); r++ {
				done++
				obj := inst.build(wl.Rep)
				res := make([]string, gor)
				start := make(chan struct{})
				var wg sync.WaitGroup
				var pmu sync.Mutex
				for gi := 0; gi < gor; gi++ {
					wg.Add(1)
					op, v := slot(gi)
					f := obj[v][op]
					go func(gi int) {
						defer wg.Done()
						<-start
						if msg, _, pan := core.Try(func() { res[gi] = f() }); pan {
							pmu.Lock()
							panics = append(panics, wl.Ops[gi%len(wl.Ops)]+": "+msg)
							pmu.Unlock()
							res[gi] = "panic"
						}
					}(gi)
				}
				close(start)
				wg.Wait()
				out.Runs += gor
				for v := 0; v < nobj; v++ {
					if ob := obj[v]["#observe"]; ob != nil {
						if got, untouched := ob(), pristine(wl.Rep, v); got != untouched {
							changed = [2]string{got, untouched}
						}
					}
				}
				if inst.unique {
					seenDraw := map[string]int{}
					for gi, got := range res {
						for _, d := range strings.Split(got, ",") {
							if pg, dup := seenDraw[d]; dup && d != "panic" {
								op, _ := slot(gi)
								pop, _ := slot(pg)
								dups = append(dups, fmt.Sprintf("%s (goroutine %d) and %s (goroutine %d) drew %s", pop, pg, op, gi, d))
							}
							seenDraw[d] = gi
						}
					}
				}
				for gi, got := range res {
					op, v := slot(gi)
					k := fmt.Sprint(v, "/", op)
					if det[k] && got != want[k] {
						mism[op] = [2]string{got, want[k]}
					}
				}
			}
			base := fmt.Sprintf("%s/%s/%s", cfg.Prop, inst.kind, inst.config)
			detail := func(extra map[string]any) map[string]any {
				d := map[string]any{"behaviour": wl, "config": inst.config, "goroutines": gor, "repetitions": done}
				for k, v := range extra {
					d[k] = v
				}
				return d
			}
			for _, rp := range newReports() {
				a, b := apiFrame(rp.Stacks[0]), apiFrame(rp.Stacks[1])
				if a == "" && b == "" {
					out.Harness = append(out.Harness, rp.Text)
					continue
				}
				pair := []string{shortFn(a), shortFn(b)}
				sort.Strings(pair)
				racy[strings.Join(pair, "|")] = true
				out.Violations = append(out.Violations, core.Violation{
					Key:    fmt.Sprintf("%s/%s/data-race", base, strings.Join(pair, "|")),
					What:   "the race detector reports conflicting accesses inside read-only operations on a shared " + inst.kind,
					Detail: detail(map[string]any{"report": rp.Text}),
				})
			}
			for op, gw := range mism {
				out.Violations = append(out.Violations, core.Violation{
					Key:    fmt.Sprintf("%s/%s/result-differs", base, op),
					What:   "a read-only operation returned a different result under concurrent read-only use than when run alone",
					Detail: detail(map[string]any{"op": op, "got": gw[0], "want": gw[1]}),
				})
			}
			if changed[0] != "" || changed[1] != "" {
				out.Violations = append(out.Violations, core.Violation{
					Key:    fmt.Sprintf("%s/%s/object-changed", base, strings.Join(wl.Ops, "|")),
					What:   "after concurrent read-only calls an observable of the shared object differs from an untouched object",
					Detail: detail(map[string]any{"after": changed[0], "untouched": changed[1]}),
				})
			}
			if len(dups) > 0 {
				if len(dups) > 5 {
					dups = dups[:5]
				}
				out.Violations = append(out.Violations, core.Violation{
					Key:    fmt.Sprintf("%s/duplicate-draw", base),
					What:   "two draws from one shared random stream returned the same bytes",
					Detail: detail(map[string]any{"duplicates": dups}),
				})
			}
			if len(panics) > 0 {
				out.Violations = append(out.Violations, core.Violation{
					Key:    fmt.Sprintf("%s/%s/panic", base, strings.Join(wl.Ops, "|")),
					What:   "a read-only operation panicked under concurrent read-only use",
					Detail: detail(map[string]any{"panics": panics}),
				})
			}
		}
		out.Timing = append(out.Timing, fmt.Sprintf("%s/%s: %d op runs in %.1fs", inst.kind, inst.config, out.Runs-runs0, time.Since(t0).Seconds()))
	}
	return out, nil
}

// shortFn turns "group/edwards25519vartime.(*projPoint).MarshalBinary" into "(*projPoint).MarshalBinary"
// and "sign/bdn.AggregatePublicKeys" into "bdn.AggregatePublicKeys".
func shortFn(f string) string {
	if f == "" {
		return "(outside kyber)"
	}
	if i := strings.LastIndex(f, "/"); i >= 0 {
		f = f[i+1:]
	}
	if i := strings.Index(f, ".("); i >= 0 {
		return f[i+1:]
	}
	return f
}

// Run is the entry point: the parent re-executes this binary once per shard (own race log each).
func Run(cfg Config, res *core.Result) error {
	wls, err := loadWorkloads(cfg.In)
	if err != nil {
		return err
	}
	if len(wls) == 0 {
		return fmt.Errorf("no workloads in %s", cfg.In)
	}
	if cfg.Goroutines < 2 {
		cfg.Goroutines = 8
	}
	if cfg.Reps < 1 {
		cfg.Reps = 20
	}
	if cfg.BudgetMs < 1 {
		cfg.BudgetMs = 100
	}
	if cfg.Shard >= 0 { // child
		out, err := runShard(cfg, wls)
		if err != nil {
			return err
		}
		b, _ := json.Marshal(out)
		return os.WriteFile(cfg.Out+".shard", b, 0o644)
	}
	if cfg.Shards < 1 {
		cfg.Shards = runtime.NumCPU()
	}
	if !raceEnabled {
		return fmt.Errorf("the shared driver must be built with -race")
	}
	res.AddTraces(len(wls))
	type child struct {
		out  string
		cmd  *exec.Cmd
		errb *bytes.Buffer
	}
	// static balancing: longest-processing-time-first over (workloads of the kind) x (cost class)
	perKind := map[string]int{}
	for _, w := range wls {
		perKind[w.Kind]++
	}
	filter := map[string]bool{}
	for _, c := range strings.Split(cfg.Configs, ",") {
		if c != "" {
			filter[c] = true
		}
	}
	type job struct {
		name string
		w    float64
	}
	var jobs []job
	for _, ent := range registry(cfg.Seed) {
		if len(filter) > 0 && !filter[ent.kind+"/"+ent.config] && !filter[ent.config] && !filter[ent.kind] {
			continue
		}
		if perKind[ent.kind] == 0 {
			continue
		}
		jobs = append(jobs, job{ent.kind + "/" + ent.config, float64(perKind[ent.kind])*[]float64{0, 1, 1.5, 2.5}[estCost(ent)] + 8})
	}
	sort.SliceStable(jobs, func(i, j int) bool { return jobs[i].w > jobs[j].w })
	if cfg.Shards > len(jobs) {
		cfg.Shards = len(jobs)
	}
	bins := make([][]string, cfg.Shards)
	load := make([]float64, cfg.Shards)
	for _, j := range jobs {
		m := 0
		for i := range load {
			if load[i] < load[m] {
				m = i
			}
		}
		bins[m] = append(bins[m], j.name)
		load[m] += j.w
	}
	var kids []child
	t0 := time.Now()
	for s := 0; s < cfg.Shards; s++ {
		o := fmt.Sprintf("%s.%d", cfg.Out, s)
		cmd := exec.Command(os.Args[0], "shared", "-prop", cfg.Prop, "-in", cfg.In, "-seed", fmt.Sprint(cfg.Seed),
			"-g", fmt.Sprint(cfg.Goroutines), "-reps", fmt.Sprint(cfg.Reps), "-shards", "1",
			"-shard", "0", "-configs", strings.Join(bins[s], ","), "-budget", fmt.Sprint(cfg.BudgetMs), "-out", o, "-tier", cfg.Tier)
		cmd.Env = append(os.Environ(), fmt.Sprintf("GORACE=halt_on_error=0 exitcode=0 log_path=%s.race", o), "GOMAXPROCS=2")
		eb := &bytes.Buffer{}
		cmd.Stderr = eb
		if err := cmd.Start(); err != nil {
			return err
		}
		kids = append(kids, child{o, cmd, eb})
	}
	runs := 0
	var timing []string
	for _, k := range kids {
		if err := k.cmd.Wait(); err != nil {
			se := k.errb.String()
			if strings.Contains(se, "fatal error: concurrent map") && strings.Contains(se, kyberPrefix) {
				// the runtime's own detector fired inside kyber: a violation, not a harness failure
				fn := se[strings.Index(se, kyberPrefix):]
				if i := strings.IndexAny(fn, "(\n"); i > 0 {
					fn = fn[:i]
				}
				if len(se) > 6000 {
					se = se[:6000]
				}
				res.Violate(fmt.Sprintf("%s/runtime-fatal/%s/concurrent-map-access", cfg.Prop, shortFn(strings.TrimPrefix(fn, kyberPrefix))),
					"the Go runtime aborted with a concurrent map access inside kyber during read-only use", map[string]any{"stderr": se})
				continue
			}
			return fmt.Errorf("shard failed: %v: %s", err, se)
		}
		b, err := os.ReadFile(k.out + ".shard")
		if err != nil {
			return err
		}
		var o outcome
		if err := json.Unmarshal(b, &o); err != nil {
			return err
		}
		for _, id := range o.IDs {
			res.Eval(id)
			perKind[strings.SplitN(id, "/", 2)[0]+"#cases"]++
		}
		for _, v := range o.Violations {
			res.Violate(v.Key, v.What, v.Detail)
		}
		for k, n := range o.Skipped {
			for i := 0; i < n; i++ {
				res.Skip(k)
			}
		}
		for _, s := range o.Samples {
			res.Sample(s)
		}
		if len(o.Harness) > 0 {
			h, _ := res.Extra["harness_races"].([]string)
			res.SetExtra("harness_races", append(h, o.Harness...))
		}
		runs += o.Runs
		timing = append(timing, o.Timing...)
		os.Remove(k.out + ".shard")
		matches, _ := filepath.Glob(k.out + ".race.*")
		for _, m := range matches {
			os.Remove(m)
		}
	}
	res.SetExtra("cases_per_kind", perKind)
	res.SetExtra("op_runs", runs)
	res.SetExtra("timing", timing)
	res.SetExtra("wall_s", time.Since(t0).Seconds())
	res.Rule = "case = (object kind, configuration, representation, op1 || op2 [|| op3]) from TLC's workload enumeration; G goroutines released by a barrier run the operations on ONE fresh shared object per repetition under the race detector; results compared with the operation run alone"
	return nil
}
