package alg

import (
	"bytes"
	"fmt"

	"go.dedis.ch/kyber/v4"
	"go.dedis.ch/kyber/v4/xof/blake2xb"

	"verifharness/internal/core"
	"verifharness/internal/groups"
)

// FirstUse checks that the constants of a group (generator, identity, scalar 0 and 1) are values and not
// storage shared with the object that happened to ask for them first: in the abstract machine (KyberAlgebra.tla)
// `base`, `null`, `one`, `zero` write a constant into the receiver whatever the history.  The probe is run
// serially before anything else in the process touches the group: the first object on which Base / Pick /
// Mul(1,nil) / Null;Base is called is afterwards overwritten in place, and after every overwrite fresh objects
// must still see the same constants.  `variant` selects which call is the first one.
func FirstUse(all []*groups.Info, variant int, res *core.Result, prop string) {
	for _, g := range all {
		firstUseGroup(g, variant, res, prop)
	}
}

func firstUseGroup(g *groups.Info, variant int, res *core.Result, prop string) {
	v := ((variant % 4) + 4) % 4
	bad := func(kind, what string, detail map[string]any) {
		if detail == nil {
			detail = map[string]any{}
		}
		detail["group"] = g.Name
		detail["variant"] = v
		res.Violate(fmt.Sprintf("%s/%s/firstuse/v%d/%s", prop, g.Name, v, kind), what, detail)
	}
	msg, stack, pan := core.Try(func() {
		// ---- scalars
		newS := func() kyber.Scalar { return g.Group.Scalar() }
		encS := func(s kyber.Scalar) []byte { b, _ := s.MarshalBinary(); return b }
		var s kyber.Scalar
		switch v {
		case 0, 2:
			s = newS().One()
		case 1:
			s = newS().Zero()
		default:
			s = newS().Zero()
			s.One()
		}
		one0, zero0 := encS(newS().One()), encS(newS().Zero())
		checkS := func(after string) {
			res.Eval("firstuse/" + g.Name + "/s/" + after)
			if o := encS(newS().One()); !bytes.Equal(o, one0) {
				bad("one-moved", "Scalar().One() on a fresh object changed after "+after+" on the first object that asked for a constant",
					map[string]any{"before": fmt.Sprintf("%x", one0), "after": fmt.Sprintf("%x", o), "step": after})
			}
			if z := encS(newS().Zero()); !bytes.Equal(z, zero0) {
				bad("zero-moved", "Scalar().Zero() on a fresh object changed after "+after+" on the first object that asked for a constant",
					map[string]any{"before": fmt.Sprintf("%x", zero0), "after": fmt.Sprintf("%x", z), "step": after})
			}
		}
		checkS("init")
		s.Add(s, newS().SetInt64(5))
		checkS("s.add")
		s.Mul(s, s)
		checkS("s.mul")
		s.Neg(s)
		checkS("s.neg")
		s.SetInt64(7)
		checkS("s.setint64")
		s.Zero()
		checkS("s.zero")
		if g.ScalarOnly || !g.CanBase {
			return
		}
		// ---- points
		encP := func(p kyber.Point) []byte { b, _ := p.MarshalBinary(); return b }
		var p kyber.Point
		switch v {
		case 0:
			p = g.NewPoint().Base()
		case 1:
			if g.CanPick {
				p = g.NewPoint().Pick(blake2xb.New([]byte("firstuse:" + g.Name)))
			} else {
				p = g.NewPoint().Base()
			}
		case 2:
			p = g.NewPoint().Mul(newS().One(), nil)
		default:
			p = g.NewPoint().Null()
			p.Base()
		}
		base0, null0 := encP(g.NewPoint().Base()), encP(g.NewPoint().Null())
		checkP := func(after string) {
			res.Eval("firstuse/" + g.Name + "/p/" + after)
			if b := encP(g.NewPoint().Base()); !bytes.Equal(b, base0) {
				bad("base-moved", "Point().Base() on a fresh object changed after "+after+" on the first object of the process that used the generator",
					map[string]any{"before": fmt.Sprintf("%x", base0), "after": fmt.Sprintf("%x", b), "step": after})
			}
			if b := encP(g.NewPoint().Mul(newS().One(), nil)); !bytes.Equal(b, base0) {
				bad("implicit-base-moved", "Point().Mul(1, nil) differs from the generator after "+after+" on the first object of the process that used the generator",
					map[string]any{"before": fmt.Sprintf("%x", base0), "after": fmt.Sprintf("%x", b), "step": after})
			}
			if n := encP(g.NewPoint().Null()); !bytes.Equal(n, null0) {
				bad("null-moved", "Point().Null() on a fresh object changed after "+after+" on the first object of the process that used a constant",
					map[string]any{"before": fmt.Sprintf("%x", null0), "after": fmt.Sprintf("%x", n), "step": after})
			}
		}
		checkP("init")
		p.Add(p, p)
		checkP("p.add")
		p.Mul(newS().SetInt64(3), p)
		checkP("p.mul")
		p.Neg(p)
		checkP("p.neg")
		p.Sub(p, g.NewPoint().Base())
		checkP("p.sub")
		p.Null()
		checkP("p.null")
		p.Base()
		p.Add(p, p)
		checkP("p.base;p.add")
	})
	if pan {
		bad("panic", "first-use probe panicked: "+msg, map[string]any{"stack": stack})
	}
}
