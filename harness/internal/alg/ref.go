package alg

import (
	"math/big"
)

// Independent arbitrary-precision reference models (math/big, affine
// formulas) of the curves for which C18 demands agreement with a reference.

type refPoint struct {
	X, Y *big.Int
	Inf  bool
}

type refCurve interface {
	Add(a, b refPoint) refPoint
	Base() refPoint
	Encode(p refPoint) []byte
	Decode(b []byte) (refPoint, bool)
}

func refScalarMul(c refCurve, k *big.Int, p refPoint, zero refPoint) refPoint {
	acc := zero
	for i := k.BitLen() - 1; i >= 0; i-- {
		acc = c.Add(acc, acc)
		if k.Bit(i) == 1 {
			acc = c.Add(acc, p)
		}
	}
	return acc
}

func hexBig(s string) *big.Int {
	v, ok := new(big.Int).SetString(s, 16)
	if !ok {
		panic(s)
	}
	return v
}

// ---------- twisted Edwards: -x^2 + y^2 = 1 + d x^2 y^2 over GF(2^255-19) ----------

type edRef struct{ p, d *big.Int }

func newEdRef() *edRef {
	p := new(big.Int).Sub(new(big.Int).Lsh(big.NewInt(1), 255), big.NewInt(19))
	// d = -121665/121666
	d := new(big.Int).ModInverse(big.NewInt(121666), p)
	d.Mul(d, big.NewInt(-121665))
	d.Mod(d, p)
	return &edRef{p, d}
}

func (e *edRef) Zero() refPoint { return refPoint{X: big.NewInt(0), Y: big.NewInt(1)} }

func (e *edRef) Add(a, b refPoint) refPoint {
	p := e.p
	x1y2 := new(big.Int).Mul(a.X, b.Y)
	y1x2 := new(big.Int).Mul(a.Y, b.X)
	y1y2 := new(big.Int).Mul(a.Y, b.Y)
	x1x2 := new(big.Int).Mul(a.X, b.X)
	t := new(big.Int).Mul(x1x2, y1y2)
	t.Mul(t, e.d)
	t.Mod(t, p)
	nx := new(big.Int).Add(x1y2, y1x2)
	ny := new(big.Int).Add(y1y2, x1x2) // a = -1: y1y2 - a x1x2
	dx := new(big.Int).Add(big.NewInt(1), t)
	dy := new(big.Int).Sub(big.NewInt(1), t)
	dx.ModInverse(dx.Mod(dx, p), p)
	dy.ModInverse(dy.Mod(dy, p), p)
	nx.Mul(nx, dx).Mod(nx, p)
	ny.Mul(ny, dy).Mod(ny, p)
	return refPoint{X: nx, Y: ny}
}

func (e *edRef) Base() refPoint {
	// y = 4/5, x positive (even)
	y := new(big.Int).ModInverse(big.NewInt(5), e.p)
	y.Mul(y, big.NewInt(4)).Mod(y, e.p)
	pt, _ := e.fromY(y, 0)
	return pt
}

func (e *edRef) fromY(y *big.Int, sign uint) (refPoint, bool) {
	p := e.p
	y2 := new(big.Int).Mul(y, y)
	num := new(big.Int).Sub(y2, big.NewInt(1))
	den := new(big.Int).Mul(e.d, y2)
	den.Add(den, big.NewInt(1)).Mod(den, p)
	den.ModInverse(den, p)
	x2 := num.Mul(num, den)
	x2.Mod(x2, p)
	x := new(big.Int).ModSqrt(x2, p)
	if x == nil {
		return refPoint{}, false
	}
	if x.Bit(0) != sign {
		x.Sub(p, x)
		x.Mod(x, p)
	}
	return refPoint{X: x, Y: new(big.Int).Set(y)}, true
}

func (e *edRef) Encode(pt refPoint) []byte {
	out := make([]byte, 32)
	pt.Y.FillBytes(out)
	out = reverse(out)
	if pt.X.Bit(0) == 1 {
		out[31] |= 0x80
	}
	return out
}

func (e *edRef) Decode(b []byte) (refPoint, bool) {
	if len(b) != 32 {
		return refPoint{}, false
	}
	c := reverse(b)
	sign := uint(c[0] >> 7)
	c[0] &= 0x7f
	y := new(big.Int).SetBytes(c)
	return e.fromY(y, sign)
}

// ---------- short Weierstrass y^2 = x^3 + a x + b ----------

type wsRef struct {
	p, a, b *big.Int
	gx, gy  *big.Int
	enc     func(w *wsRef, pt refPoint) []byte
	dec     func(w *wsRef, b []byte) (refPoint, bool)
	size    int
}

func (w *wsRef) Zero() refPoint { return refPoint{Inf: true} }
func (w *wsRef) Base() refPoint { return refPoint{X: w.gx, Y: w.gy} }

func (w *wsRef) Add(a, b refPoint) refPoint {
	if a.Inf {
		return b
	}
	if b.Inf {
		return a
	}
	p := w.p
	var lam *big.Int
	if a.X.Cmp(b.X) == 0 {
		s := new(big.Int).Add(a.Y, b.Y)
		if s.Mod(s, p).Sign() == 0 {
			return refPoint{Inf: true}
		}
		num := new(big.Int).Mul(a.X, a.X)
		num.Mul(num, big.NewInt(3)).Add(num, w.a)
		den := new(big.Int).Lsh(a.Y, 1)
		den.ModInverse(den.Mod(den, p), p)
		lam = num.Mul(num, den)
	} else {
		num := new(big.Int).Sub(b.Y, a.Y)
		den := new(big.Int).Sub(b.X, a.X)
		den.ModInverse(den.Mod(den, p), p)
		lam = num.Mul(num, den)
	}
	lam.Mod(lam, p)
	x3 := new(big.Int).Mul(lam, lam)
	x3.Sub(x3, a.X).Sub(x3, b.X).Mod(x3, p)
	y3 := new(big.Int).Sub(a.X, x3)
	y3.Mul(y3, lam).Sub(y3, a.Y).Mod(y3, p)
	return refPoint{X: x3, Y: y3}
}

func (w *wsRef) Encode(pt refPoint) []byte              { return w.enc(w, pt) }
func (w *wsRef) Decode(b []byte) (refPoint, bool)       { return w.dec(w, b) }
func (w *wsRef) onCurve(x, y *big.Int) bool {
	l := new(big.Int).Mul(y, y)
	r := new(big.Int).Mul(x, x)
	r.Mul(r, x)
	r.Add(r, new(big.Int).Mul(w.a, x)).Add(r, w.b)
	return l.Mod(l, w.p).Cmp(r.Mod(r, w.p)) == 0
}

func xyEnc(prefix []byte) func(w *wsRef, pt refPoint) []byte {
	return func(w *wsRef, pt refPoint) []byte {
		out := make([]byte, len(prefix)+2*w.size)
		copy(out, prefix)
		if pt.Inf {
			return out
		}
		pt.X.FillBytes(out[len(prefix) : len(prefix)+w.size])
		pt.Y.FillBytes(out[len(prefix)+w.size:])
		return out
	}
}

func xyDec(prefix int) func(w *wsRef, b []byte) (refPoint, bool) {
	return func(w *wsRef, b []byte) (refPoint, bool) {
		if len(b) != prefix+2*w.size {
			return refPoint{}, false
		}
		x := new(big.Int).SetBytes(b[prefix : prefix+w.size])
		y := new(big.Int).SetBytes(b[prefix+w.size:])
		if x.Sign() == 0 && y.Sign() == 0 {
			return refPoint{Inf: true}, true
		}
		return refPoint{X: x, Y: y}, w.onCurve(x, y)
	}
}

func newP256Ref() *wsRef {
	p := hexBig("ffffffff00000001000000000000000000000000ffffffffffffffffffffffff")
	return &wsRef{p: p, a: new(big.Int).Sub(p, big.NewInt(3)),
		b:  hexBig("5ac635d8aa3a93e7b3ebbd55769886bc651d06b0cc53b0f63bce3c3e27d2604b"),
		gx: hexBig("6b17d1f2e12c4247f8bce6e563a440f277037d812deb33a0f4a13945d898c296"),
		gy: hexBig("4fe342e2fe1a7f9b8ee7eb4a7c0f9e162bce33576b315ececbb6406837bf51f5"),
		enc: xyEnc([]byte{4}), dec: xyDec(1), size: 32}
}

// BN256 (cloudflare parameters) G1: y^2 = x^3 + 3, generator (1, 2)... kyber's curveGen is (1, -2)? decided by the caller via gy
func newBNRef(pDec string, gy *big.Int) *wsRef {
	p, _ := new(big.Int).SetString(pDec, 10)
	return &wsRef{p: p, a: big.NewInt(0), b: big.NewInt(3), gx: big.NewInt(1), gy: gy,
		enc: xyEnc(nil), dec: xyDec(0), size: 32}
}
