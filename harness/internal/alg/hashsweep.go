//go:build !constantTime

package alg

import (
	"bytes"
	"encoding/hex"
	"fmt"
	"runtime"

	"go.dedis.ch/kyber/v4"

	"verifharness/internal/core"
	"verifharness/internal/groups"
)

// RunHashSweep: hash-to-group on every group that offers one, over a fixed family of messages (so that
// detection does not depend on the seed) plus seed-dependent ones: the result is a member of the group
// (its encoding is accepted by UnmarshalBinary and re-encodes to the same bytes, (q-1)P + P = O), it is a
// function of (message, tag) alone (a second fresh receiver and a dirty receiver give the same bytes), and the
// message buffer is left unchanged.  Rare value shapes (a coordinate with leading zero bytes, ~1/256 per
// message) are reached by volume: n messages per route.
func RunHashSweep(cfg Config, res *core.Result, n int) {
	var gs []*groups.Info
	for _, g := range groups.All() {
		if g.ScalarOnly || g.Sort == "GT" {
			continue
		}
		gs = append(gs, g)
	}
	core.Parallel(len(gs), runtime.NumCPU(), func(i int) { hashSweepGroup(gs[i], cfg, res, n) })
}

type hashRoute struct {
	name string
	f    func(p kyber.Point, msg []byte) kyber.Point
}

func hashRoutes(g *groups.Info) []hashRoute {
	var out []hashRoute
	p := g.NewPoint()
	if _, ok := p.(kyber.HashablePoint); ok {
		out = append(out, hashRoute{"Hash", func(p kyber.Point, msg []byte) kyber.Point { return p.(kyber.HashablePoint).Hash(msg) }})
	}
	if _, ok := hashTo(g, g.NewPoint(), []byte("probe"), "probe"); ok {
		out = append(out, hashRoute{"tagged", func(p kyber.Point, msg []byte) kyber.Point {
			q, _ := hashTo(g, p, msg, "sweep")
			return q
		}})
	}
	return out
}

func hashSweepGroup(g *groups.Info, cfg Config, res *core.Result, n int) {
	minusOne := g.Group.Scalar().SetInt64(-1)
	null := g.NewPoint().Null()
	rng := core.Rng(cfg.Seed, "hashsweep", g.Name)
	for _, rt := range hashRoutes(g) {
		vkey := func(kind string) string { return fmt.Sprintf("%s/%s/hash-sweep:%s/%s", cfg.Prop, g.Name, rt.name, kind) }
		for i := 0; i < n; i++ {
			var msg []byte
			if i%4 == 3 {
				msg = make([]byte, rng.Intn(100))
				rng.Read(msg)
			} else {
				msg = []byte(fmt.Sprintf("verif-c17-sweep-%d", i))
				msg = append(msg, bytes.Repeat([]byte{byte(i)}, i%70)...)
			}
			keep := append([]byte(nil), msg...)
			id := fmt.Sprintf("hashsweep|%s|%s|%d", g.Name, rt.name, i)
			res.Eval(id)
			detail := map[string]any{"group": g.Name, "route": rt.name, "msg": hex.EncodeToString(keep)}
			var p kyber.Point
			var enc []byte
			m, stack, pan := core.Try(func() {
				p = rt.f(g.NewPoint(), msg)
				enc, _ = p.MarshalBinary()
			})
			if pan {
				detail["stack"] = stack
				res.Violate(vkey("panic"), "hash-to-group panicked: "+m, detail)
				continue
			}
			detail["enc"] = hex.EncodeToString(enc)
			if !bytes.Equal(msg, keep) {
				res.Violate(vkey("message-modified"), "hash-to-group modified the caller's message buffer", detail)
			}
			q := g.NewPoint()
			if err := q.UnmarshalBinary(enc); err != nil {
				detail["err"] = err.Error()
				res.Violate(vkey("not-member"), fmt.Sprintf("hash-to-group on %s returned a point whose own encoding UnmarshalBinary rejects", g.Name), detail)
				continue
			}
			if e2, _ := q.MarshalBinary(); !bytes.Equal(e2, enc) || !q.Equal(p) {
				res.Violate(vkey("not-canonical"), fmt.Sprintf("hash-to-group on %s: the result does not survive an encoding round trip", g.Name), detail)
			}
			if i%8 == 0 || i < 64 {
				r := g.NewPoint().Mul(minusOne, p)
				r.Add(r, p)
				if !r.Equal(null) {
					res.Violate(vkey("not-in-subgroup"), fmt.Sprintf("hash-to-group on %s: (q-1)P + P is not the identity", g.Name), detail)
				}
			}
			// a function of the message alone: a receiver that held something else gives the same bytes
			dirty := g.NewPoint().Base()
			dirty.Add(dirty, dirty)
			var enc2 []byte
			_, _, pan = core.Try(func() { enc2, _ = rt.f(dirty, keep).MarshalBinary() })
			if pan || !bytes.Equal(enc2, enc) {
				detail["enc2"] = hex.EncodeToString(enc2)
				res.Violate(vkey("not-deterministic"), fmt.Sprintf("hash-to-group on %s: the same message on another receiver gives another point", g.Name), detail)
			}
		}
	}
}
