// Package alg replays behaviours of spec/KyberAlgebra.tla against the real
// kyber.Scalar / kyber.Point objects of every group instance (DESIGN 3.3a).
//
// TLC supplies, for every step, the operation, the registers involved and the
// abstract value (Laurent polynomial / linear combination of atoms) the
// destination must hold afterwards.  This package contributes only the
// refinement mapping: a binding û of the indeterminate and concrete atoms, the
// evaluation of abstract values modulo the group order, and the projection of
// concrete objects (encoding bytes, Equal partition).
package alg

import (
	"bytes"
	"crypto/cipher"
	"encoding/hex"
	"encoding/json"
	"fmt"
	"io"
	"math/big"
	"strings"

	"go.dedis.ch/kyber/v4"
	kenc "go.dedis.ch/kyber/v4/util/encoding"
	"go.dedis.ch/kyber/v4/xof/blake2xb"

	"verifharness/internal/core"
	"verifharness/internal/groups"
)

// ---------- abstract values ----------

type AScalar struct {
	C []int64 `json:"c"`
	D int64   `json:"d"`
}

type APoint map[string]AScalar

type Step struct {
	Op string          `json:"op"`
	D  string          `json:"d"`
	A  string          `json:"a"`
	B  string          `json:"b"`
	K  int64           `json:"k"`
	V  json.RawMessage `json:"v"`
	S  map[string]AScalar `json:"s"`
	P  map[string]APoint  `json:"p"`
}

type Behaviour []Step

// ---------- binding ----------

type Binding struct {
	Name   string
	U      *big.Int // û mod q
	UBytes []byte   // byte string whose declared-order integer is ≡ û (SetBytes)
	Load   string   // setbytes | unmarshal | int64
	Codec  int      // 0 binary, 1 stream, 2 hex
	HSeed  string
}

func (b Binding) Describe() map[string]any {
	return map[string]any{"name": b.Name, "u": b.U.String(), "ubytes": hex.EncodeToString(b.UBytes),
		"load": b.Load, "codec": b.Codec, "hseed": b.HSeed}
}

func reverse(b []byte) []byte {
	o := make([]byte, len(b))
	for i := range b {
		o[len(b)-1-i] = b[i]
	}
	return o
}

// bytesToInt interprets b in the group's declared byte order.
func bytesToInt(g *groups.Info, b []byte) *big.Int {
	if g.ScalarLE {
		return new(big.Int).SetBytes(reverse(b))
	}
	return new(big.Int).SetBytes(b)
}

// EncodeScalar is the fixed-width canonical encoding of residue r.
func EncodeScalar(g *groups.Info, r *big.Int) []byte {
	w := (g.Order.BitLen() + 7) / 8
	out := make([]byte, w)
	r.FillBytes(out)
	if g.ScalarLE {
		return reverse(out)
	}
	return out
}

// Bindings returns n bindings for group g chosen from the edge pool by seed.
func Bindings(g *groups.Info, seed int64, n int) []Binding {
	q := g.Order
	rng := core.Rng(seed, "bind", g.ScalarTy)
	var pool []Binding
	add := func(name string, v *big.Int) {
		u := new(big.Int).Mod(v, q)
		pool = append(pool, Binding{Name: name, U: u})
	}
	one := big.NewInt(1)
	add("2", big.NewInt(2))
	add("q-1", new(big.Int).Sub(q, one))
	add("q-2", new(big.Int).Sub(q, big.NewInt(2)))
	add("1", one)
	for _, k := range []uint{21, 25, 26, 42, 51, 52, 63, 64, 65, 84, 102, 128, 153, 192, 204, 232, 248, 251, 252, 253, 254, 255} {
		p := new(big.Int).Lsh(one, k)
		if p.Cmp(q) >= 0 {
			continue
		}
		add(fmt.Sprintf("2^%d", k), p)
		add(fmt.Sprintf("2^%d-1", k), new(big.Int).Sub(p, one))
		add(fmt.Sprintf("2^%d+1", k), new(big.Int).Add(p, one))
	}
	for i := 0; i < 8; i++ {
		add(fmt.Sprintf("rand%d", i), new(big.Int).Rand(rng, q))
	}
	// all-ones limbs: 0xffff.. patterns below q
	add("ones", new(big.Int).Sub(new(big.Int).Lsh(one, uint(q.BitLen()-1)), one))
	add("0", big.NewInt(0))
	// byte-string bindings for SetBytes: arbitrary length, reduced mod q
	strs := [][]byte{{}, {0}, {0xff}, bytes.Repeat([]byte{0xff}, 31), bytes.Repeat([]byte{0xff}, 32),
		bytes.Repeat([]byte{0xff}, 33), bytes.Repeat([]byte{0xff}, 64), bytes.Repeat([]byte{0xff}, 96),
		bytes.Repeat([]byte{0}, 40)}
	for _, d := range []int64{0, 1, -1} {
		v := new(big.Int).Add(q, big.NewInt(d))
		strs = append(strs, v.Bytes())
		strs = append(strs, new(big.Int).Add(new(big.Int).Lsh(q, 1), big.NewInt(d)).Bytes())
	}
	for _, l := range []int{1, 7, 16, 31, 32, 33, 47, 48, 63, 64, 65, 80, 96} {
		b := make([]byte, l)
		rng.Read(b)
		strs = append(strs, b)
	}
	var bytePool []Binding
	for i, sb := range strs {
		// strs are written big-endian; present them in the declared order
		b := sb
		if g.ScalarLE {
			b = reverse(sb)
		}
		u := new(big.Int).Mod(bytesToInt(g, b), q)
		bytePool = append(bytePool, Binding{Name: fmt.Sprintf("bytes%d(len%d)", i, len(b)), U: u, UBytes: b, Load: "setbytes"})
	}
	// choose: first the fixed important ones, then seeded picks
	var out []Binding
	order := rng.Perm(len(pool))
	border := rng.Perm(len(bytePool))
	// rotate which fixed edge comes first with the seed
	for i := 0; len(out) < n; i++ {
		if i%3 == 2 {
			out = append(out, bytePool[border[(i/3)%len(border)]])
			continue
		}
		b := pool[order[(i-i/3)%len(order)]]
		pick := rng.Intn(3)
		if g.UnreducedOK && rng.Intn(3) == 0 {
			pick = 3
		}
		switch pick {
		case 3:
			// an unreduced encoding of û (û + k*q < 2^256, largest k): accepted as is by this scalar type
			v := new(big.Int).Set(b.U)
			lim := new(big.Int).Lsh(big.NewInt(1), 256)
			for {
				nx := new(big.Int).Add(v, q)
				if nx.Cmp(lim) >= 0 {
					break
				}
				v = nx
			}
			raw := make([]byte, 32)
			v.FillBytes(raw)
			b.Load = "unreduced"
			b.UBytes = reverse(raw)
		case 0:
			b.Load = "unmarshal"
		case 1:
			b.Load = "setbytes"
			b.UBytes = EncodeScalar(g, b.U)
			if !g.ScalarLE && rng.Intn(2) == 0 { // minimal-length big-endian
				b.UBytes = b.U.Bytes()
			}
		default:
			if b.U.IsInt64() {
				b.Load = "int64"
			} else {
				b.Load = "unmarshal"
			}
		}
		out = append(out, b)
	}
	// the empty byte string given to SetBytes is always among the bindings (boundary of "any length")
	if n >= 3 {
		out[n-1] = bytePool[0]
	}
	// scalar types that keep unreduced encodings as they are: one binding always loads û unreduced
	// (û + k*q < 2^256, largest k), whatever the seed
	if g.UnreducedOK && n >= 2 && out[1].Load != "unreduced" {
		v := new(big.Int).Set(out[1].U)
		lim := new(big.Int).Lsh(big.NewInt(1), 256)
		for {
			nx := new(big.Int).Add(v, q)
			if nx.Cmp(lim) >= 0 {
				break
			}
			v = nx
		}
		raw := make([]byte, 32)
		v.FillBytes(raw)
		out[1].Load = "unreduced"
		out[1].UBytes = reverse(raw)
	}
	for i := range out {
		out[i].Codec = rng.Intn(3)
		out[i].HSeed = fmt.Sprintf("H-%d-%d", seed, i)
	}
	return out
}

// ---------- evaluation ----------

type Env struct {
	G    *groups.Info
	Bind Binding
	pow  [5]*big.Int // û^-2 .. û^2 (nil if undefined)
	// atoms
	B, H   kyber.Point
	canon  map[string]*canonEntry
	Res    *core.Result
	Prop   string
	Strict bool
	chunkCtr int
}

type canonEntry struct {
	P     kyber.Point
	Bytes []byte
}

func NewEnv(g *groups.Info, b Binding, res *core.Result, prop string) (*Env, error) {
	e := &Env{G: g, Bind: b, canon: map[string]*canonEntry{}, Res: res, Prop: prop}
	q := g.Order
	e.pow[2] = big.NewInt(1)
	e.pow[3] = new(big.Int).Set(b.U)
	e.pow[4] = new(big.Int).Mod(new(big.Int).Mul(b.U, b.U), q)
	if b.U.Sign() != 0 {
		inv := new(big.Int).ModInverse(b.U, q)
		e.pow[1] = inv
		e.pow[0] = new(big.Int).Mod(new(big.Int).Mul(inv, inv), q)
	}
	if g.ScalarOnly {
		return e, nil
	}
	// atoms
	if g.CanBase {
		e.B = g.NewPoint().Base()
	} else if g.Sort == "GT" && g.Suite != nil {
		e.B = g.Fix(g.Suite.Pair(g.Suite.G1().Point().Base(), g.Suite.G2().Point().Base()))
	} else {
		return nil, fmt.Errorf("no base for %s", g.Name)
	}
	if g.CanPick {
		e.H = g.NewPoint().Pick(e.hStream())
	} else if g.Sort == "GT" && g.Suite != nil {
		h1 := g.Suite.G1().Point().Pick(e.hStream())
		e.H = g.Fix(g.Suite.Pair(h1, g.Suite.G2().Point().Base()))
	} else {
		return nil, fmt.Errorf("no pick for %s", g.Name)
	}
	return e, nil
}

func (e *Env) hStream() cipher.Stream { return blake2xb.New([]byte(e.Bind.HSeed)) }

// Eval returns the residue of an abstract scalar under the binding; ok=false
// if the binding is inadmissible (needs û^-1 with û = 0, or denominator ≡ 0).
func (e *Env) Eval(a AScalar) (*big.Int, bool) {
	q := e.G.Order
	acc := new(big.Int)
	for i, c := range a.C {
		if c == 0 {
			continue
		}
		if e.pow[i] == nil {
			return nil, false
		}
		t := new(big.Int).Mul(big.NewInt(c), e.pow[i])
		acc.Add(acc, t)
	}
	if a.D != 1 {
		d := new(big.Int).Mod(big.NewInt(a.D), q)
		if d.Sign() == 0 {
			return nil, false
		}
		dinv := new(big.Int).ModInverse(d, q)
		if dinv == nil {
			return nil, false
		}
		acc.Mul(acc, dinv)
	}
	acc.Mod(acc, q)
	return acc, true
}

// refMul computes k*P with double-and-add using only Add on fresh operands.
func (e *Env) refMul(k *big.Int, P kyber.Point) kyber.Point {
	g := e.G
	acc := g.NewPoint().Null()
	for i := k.BitLen() - 1; i >= 0; i-- {
		acc = g.NewPoint().Add(acc, acc)
		if k.Bit(i) == 1 {
			acc = g.NewPoint().Add(acc, P)
		}
	}
	return acc
}

// Canon builds the concrete point of an abstract value on the canonical route.
func (e *Env) Canon(v APoint) (*canonEntry, bool) {
	rb, ok := e.Eval(v["B"])
	if !ok {
		return nil, false
	}
	rh, ok := e.Eval(v["H"])
	if !ok {
		return nil, false
	}
	key := rb.Text(62) + "|" + rh.Text(62)
	if c, ok := e.canon[key]; ok {
		return c, true
	}
	pb := e.refMul(rb, e.B)
	ph := e.refMul(rh, e.H)
	sum := e.G.NewPoint().Add(pb, ph)
	buf, err := sum.MarshalBinary()
	if err != nil {
		buf = []byte("marshal-error:" + err.Error())
	}
	c := &canonEntry{P: sum, Bytes: buf}
	e.canon[key] = c
	return c, true
}

// ---------- replay ----------

type regs struct {
	raw    map[string]bool // scalar register holds an unreduced value (only via the "unreduced" load)
	direct bool
	S    map[string]kyber.Scalar
	P    map[string]kyber.Point
	expS map[string][]byte
	expP map[string][]byte
	absS map[string]AScalar
	absP map[string]APoint
}

var sRegs = []string{"s1", "s2"}
var pRegs = []string{"p1", "p2", "p3"}

func alias(st Step) string {
	var parts []string
	if st.A != "" && st.A == st.D {
		parts = append(parts, "d=a")
	}
	if st.B != "" && st.B == st.D {
		parts = append(parts, "d=b")
	}
	if st.A != "" && st.A == st.B {
		parts = append(parts, "a=b")
	}
	if len(parts) == 0 {
		return "-"
	}
	return strings.Join(parts, ",")
}

func (e *Env) key(st Step, kind string) string {
	return fmt.Sprintf("%s/%s/%s/%s/%s", e.Prop, e.G.Name, st.Op, alias(st), kind)
}

// snapS encodes a scalar register directly: going through Clone would hide a
// non-canonical (unreduced) value, since Clone may re-reduce it.
func snapS(s kyber.Scalar) []byte {
	b, err := s.MarshalBinary()
	if err != nil {
		return []byte("err:" + err.Error())
	}
	c, err := s.Clone().MarshalBinary()
	if err != nil || !bytes.Equal(b, c) {
		return []byte("clone-encodes-differently:" + hex.EncodeToString(b) + "/" + hex.EncodeToString(c))
	}
	return b
}

// snapP encodes a point register. Encoding a clone keeps the register's
// internal (possibly non-normalised) coordinates untouched for the following
// steps; encoding the register itself exposes values a Clone would repair.
// Behaviours alternate between the two (direct flag).
func snapP(p kyber.Point, direct bool) []byte {
	var b []byte
	var err error
	if direct {
		b, err = p.MarshalBinary()
	} else {
		b, err = p.Clone().MarshalBinary()
	}
	if err != nil {
		return []byte("err:" + err.Error())
	}
	return b
}

// Options select which observations a property cares about.
type Options struct {
	Points bool // behaviours contain point ops
}

// Replay runs one behaviour under this environment. It returns the number of
// steps executed (0 if the binding was inadmissible for the init record).
func (e *Env) Replay(bh Behaviour, bhID string) int {
	g := e.G
	if len(bh) == 0 || bh[0].Op != "init" {
		return 0
	}
	r := &regs{S: map[string]kyber.Scalar{}, P: map[string]kyber.Point{}, expS: map[string][]byte{},
		expP: map[string][]byte{}, absS: map[string]AScalar{}, absP: map[string]APoint{},
		direct: core.Hash64("snap", bhID)%2 == 0, raw: map[string]bool{}}
	for _, n := range sRegs {
		a := bh[0].S[n]
		res, ok := e.Eval(a)
		if !ok {
			e.Res.Skip("inadmissible-binding")
			return 0
		}
		enc := EncodeScalar(g, res)
		s := g.Group.Scalar()
		if err := s.UnmarshalBinary(enc); err != nil {
			e.Res.Violate(fmt.Sprintf("%s/%s/init/unmarshal-canonical-scalar", e.Prop, g.Name), "UnmarshalBinary rejected a canonical scalar encoding: "+err.Error(),
				map[string]any{"enc": hex.EncodeToString(enc)})
			return 0
		}
		r.S[n], r.expS[n], r.absS[n] = s, enc, a
	}
	usesPoints := false
	for _, st := range bh[1:] {
		if strings.HasPrefix(st.Op, "p.") {
			usesPoints = true
		}
	}
	if usesPoints && g.ScalarOnly {
		e.Res.Skip("scalar-only-group")
		return 0
	}
	if usesPoints {
		for _, n := range pRegs {
			a := bh[0].P[n]
			c, ok := e.Canon(a)
			if !ok {
				e.Res.Skip("inadmissible-binding")
				return 0
			}
			r.P[n], r.expP[n], r.absP[n] = g.Fix(c.P.Clone()), c.Bytes, a
		}
	}
	steps := 0
	for i, st := range bh[1:] {
		cont := e.step(r, st, bh, i+1, bhID)
		if !cont {
			break
		}
		steps++
	}
	return steps
}

func (e *Env) detail(bh Behaviour, idx int, extra map[string]any) map[string]any {
	d := map[string]any{"group": e.G.Name, "binding": e.Bind.Describe(), "behaviour": bh, "step": idx}
	for k, v := range extra {
		d[k] = v
	}
	return d
}

// step executes one step; returns false if the behaviour cannot continue
// (capability missing, inadmissible binding, or a violation that leaves the
// registers in an unknown state).
func (e *Env) step(r *regs, st Step, bh Behaviour, idx int, bhID string) bool {
	g := e.G
	isPoint := strings.HasPrefix(st.Op, "p.")
	// capability matrix
	switch st.Op {
	case "p.pick":
		if !g.CanPick {
			e.Res.Skip("cap:pick:" + g.Name)
			return false
		}
	case "p.base":
		if !g.CanBase {
			e.Res.Skip("cap:base:" + g.Name)
			return false
		}
	case "p.mul":
		if st.B == "nil" && !g.CanBase {
			e.Res.Skip("cap:mul-nil:" + g.Name)
			return false
		}
	}
	// admissibility of divisions
	if st.Op == "s.inv" || st.Op == "s.div" {
		div := st.A
		if st.Op == "s.div" {
			div = st.B
		}
		rv, ok := e.Eval(r.absS[div])
		if !ok || rv.Sign() == 0 {
			e.Res.Skip("inadmissible-binding")
			return false
		}
	}
	// expected post value
	var wantS []byte
	var wantP *canonEntry
	var absS AScalar
	var absP APoint
	if isPoint {
		if err := json.Unmarshal(st.V, &absP); err != nil {
			panic(err)
		}
		c, ok := e.Canon(absP)
		if !ok {
			e.Res.Skip("inadmissible-binding")
			return false
		}
		wantP = c
	} else {
		if err := json.Unmarshal(st.V, &absS); err != nil {
			panic(err)
		}
		rv, ok := e.Eval(absS)
		if !ok {
			e.Res.Skip("inadmissible-binding")
			return false
		}
		wantS = EncodeScalar(g, rv)
	}

	// pre-step clones: after the step every register other than the receiver must still be
	// Equal to its clone (catches operand changes that the encoding does not show, e.g. an
	// unreduced scalar canonicalised in place)
	preS := map[string]kyber.Scalar{}
	preP := map[string]kyber.Point{}
	for _, n := range sRegs {
		preS[n] = r.S[n].Clone()
	}
	for n, p := range r.P {
		preP[n] = p.Clone()
	}
	var ret any
	var recv any
	var opErr error
	msg, stack, panicked := core.Try(func() {
		switch st.Op {
		case "s.add":
			recv = r.S[st.D]
			ret = r.S[st.D].Add(r.S[st.A], r.S[st.B])
		case "s.sub":
			recv = r.S[st.D]
			ret = r.S[st.D].Sub(r.S[st.A], r.S[st.B])
		case "s.mul":
			recv = r.S[st.D]
			ret = r.S[st.D].Mul(r.S[st.A], r.S[st.B])
		case "s.div":
			recv = r.S[st.D]
			ret = r.S[st.D].Div(r.S[st.A], r.S[st.B])
		case "s.neg":
			recv = r.S[st.D]
			ret = r.S[st.D].Neg(r.S[st.A])
		case "s.inv":
			recv = r.S[st.D]
			ret = r.S[st.D].Inv(r.S[st.A])
		case "s.set":
			recv = r.S[st.D]
			ret = r.S[st.D].Set(r.S[st.A])
		case "s.clone":
			r.S[st.D] = r.S[st.A].Clone()
			if r.S[st.D] == r.S[st.A] {
				opErr = fmt.Errorf("Clone returned its receiver")
			}
		case "s.zero":
			recv = r.S[st.D]
			ret = r.S[st.D].Zero()
		case "s.one":
			recv = r.S[st.D]
			ret = r.S[st.D].One()
		case "s.int":
			recv = r.S[st.D]
			ret = r.S[st.D].SetInt64(st.K)
		case "s.loadu":
			recv = r.S[st.D]
			switch e.Bind.Load {
			case "setbytes":
				in := append([]byte(nil), e.Bind.UBytes...)
				ret = r.S[st.D].SetBytes(in)
				if !bytes.Equal(in, e.Bind.UBytes) {
					opErr = fmt.Errorf("SetBytes modified its input slice")
				}
			case "unreduced":
				opErr = r.S[st.D].UnmarshalBinary(append([]byte(nil), e.Bind.UBytes...))
				ret = recv
			case "int64":
				ret = r.S[st.D].SetInt64(e.Bind.U.Int64())
			default:
				opErr = r.S[st.D].UnmarshalBinary(EncodeScalar(g, e.Bind.U))
				ret = recv
			}
		case "s.codec":
			opErr = e.codecScalar(r.S[st.D], r.S[st.A])
		case "p.add":
			recv = r.P[st.D]
			ret = r.P[st.D].Add(r.P[st.A], r.P[st.B])
		case "p.sub":
			recv = r.P[st.D]
			ret = r.P[st.D].Sub(r.P[st.A], r.P[st.B])
		case "p.neg":
			recv = r.P[st.D]
			ret = r.P[st.D].Neg(r.P[st.A])
		case "p.set":
			recv = r.P[st.D]
			ret = r.P[st.D].Set(r.P[st.A])
		case "p.clone":
			r.P[st.D] = g.Fix(r.P[st.A].Clone())
			if r.P[st.D] == r.P[st.A] {
				opErr = fmt.Errorf("Clone returned its receiver")
			}
		case "p.mul":
			recv = r.P[st.D]
			if st.B == "nil" {
				ret = r.P[st.D].Mul(r.S[st.A], nil)
			} else {
				ret = r.P[st.D].Mul(r.S[st.A], r.P[st.B])
			}
		case "p.null":
			recv = r.P[st.D]
			ret = r.P[st.D].Null()
		case "p.base":
			recv = r.P[st.D]
			ret = r.P[st.D].Base()
		case "p.pick":
			recv = r.P[st.D]
			ret = r.P[st.D].Pick(e.hStream())
		case "p.codec":
			opErr = e.codecPoint(r.P[st.D], r.P[st.A])
		default:
			panic("unknown op " + st.Op)
		}
	})
	e.Res.Eval(e.G.Name + "|" + e.Bind.Name + "|" + bhID + "|" + fmt.Sprint(idx))
	if panicked {
		e.Res.Violate(e.key(st, "panic"), fmt.Sprintf("%s on %s panicked: %s", st.Op, g.Name, msg),
			e.detail(bh, idx, map[string]any{"panic": msg, "stack": stack}))
		return false
	}
	if opErr != nil {
		e.Res.Violate(e.key(st, "error"), fmt.Sprintf("%s on %s: %v", st.Op, g.Name, opErr),
			e.detail(bh, idx, map[string]any{"error": opErr.Error()}))
		return false
	}
	ok := true
	// An unreduced scalar (only reachable through UnmarshalBinary of unreduced bytes) is outside the
	// value domain of C01-C03: when a step consumes one, its result is not judged; what is judged is
	// that the step left every register other than its receiver alone. The behaviour ends there.
	consumesRaw := false
	if st.Op != "s.set" && st.Op != "s.clone" && st.Op != "s.loadu" {
		for _, n := range []string{st.A, st.B} {
			if r.raw[n] {
				consumesRaw = true
			}
		}
	}
	if consumesRaw {
		if recv != nil && ret != recv {
			e.Res.Violate(e.key(st, "return-not-receiver"), fmt.Sprintf("%s on %s returned an object other than its receiver", st.Op, g.Name), e.detail(bh, idx, nil))
		}
		for _, n := range sRegs {
			if n != st.D && (!r.S[n].Equal(preS[n]) || !preS[n].Equal(r.S[n])) {
				e.Res.Violate(e.key(st, "operand-changed:"+role(st, n)), fmt.Sprintf("%s on %s: scalar register %s is no longer Equal to the clone taken before the call", st.Op, g.Name, n), e.detail(bh, idx, map[string]any{"reg": n, "unreduced_operand": true}))
			}
		}
		for n, p := range r.P {
			if n != st.D && (!p.Equal(preP[n]) || !preP[n].Equal(p)) {
				e.Res.Violate(e.key(st, "operand-changed:"+role(st, n)), fmt.Sprintf("%s on %s: point register %s is no longer Equal to the clone taken before the call", st.Op, g.Name, n), e.detail(bh, idx, map[string]any{"reg": n, "unreduced_operand": true}))
			}
		}
		e.Res.Skip("unreduced-operand-result-not-judged")
		return false
	}
	// (1) the method returns its receiver
	if recv != nil && ret != recv {
		e.Res.Violate(e.key(st, "return-not-receiver"), fmt.Sprintf("%s on %s returned an object other than its receiver", st.Op, g.Name),
			e.detail(bh, idx, nil))
		ok = false
	}
	// (2) destination holds the specified value; (3) nothing else changed
	if isPoint {
		r.absP[st.D] = absP
		r.expP[st.D] = wantP.Bytes
	} else {
		r.absS[st.D] = absS
		r.expS[st.D] = wantS
		// an unreduced operand keeps its bytes through load / Set / Clone / encode-decode; every
		// arithmetic result is canonical again
		switch {
		case st.Op == "s.loadu" && e.Bind.Load == "unreduced":
			r.raw[st.D] = true // MarshalBinary reduces, so the expected encoding stays canonical
		case (st.Op == "s.set" || st.Op == "s.clone") && r.raw[st.A]:
			r.raw[st.D] = true
		default:
			r.raw[st.D] = false
		}
	}
	for _, n := range sRegs {
		got := snapS(r.S[n])
		if !bytes.Equal(got, r.expS[n]) {
			kind := "operand-changed:" + role(st, n)
			what := fmt.Sprintf("%s on %s changed scalar register %s which is not its receiver", st.Op, g.Name, n)
			if n == st.D {
				kind = "result"
				what = fmt.Sprintf("%s on %s left a wrong value in its receiver", st.Op, g.Name)
			}
			e.Res.Violate(e.key(st, kind), what, e.detail(bh, idx, map[string]any{"reg": n, "want": hex.EncodeToString(r.expS[n]), "got": hex.EncodeToString(got)}))
			ok = false
		}
	}
	if len(r.P) > 0 {
		for _, n := range pRegs {
			got := snapP(r.P[n], r.direct)
			if !bytes.Equal(got, r.expP[n]) {
				kind := "operand-changed:" + role(st, n)
				what := fmt.Sprintf("%s on %s changed point register %s which is not its receiver", st.Op, g.Name, n)
				if n == st.D {
					kind = "result"
					what = fmt.Sprintf("%s on %s left a wrong value in its receiver", st.Op, g.Name)
				}
				e.Res.Violate(e.key(st, kind), what, e.detail(bh, idx, map[string]any{"reg": n, "want": hex.EncodeToString(r.expP[n]), "got": hex.EncodeToString(got)}))
				ok = false
			}
		}
	}
	for _, n := range sRegs {
		if n != st.D && (!r.S[n].Equal(preS[n]) || !preS[n].Equal(r.S[n])) {
			e.Res.Violate(e.key(st, "operand-changed:"+role(st, n)), fmt.Sprintf("%s on %s: scalar register %s is no longer Equal to the clone taken before the call", st.Op, g.Name, n), e.detail(bh, idx, map[string]any{"reg": n}))
			ok = false
		}
	}
	for n, p := range r.P {
		if n != st.D && (!p.Equal(preP[n]) || !preP[n].Equal(p)) {
			e.Res.Violate(e.key(st, "operand-changed:"+role(st, n)), fmt.Sprintf("%s on %s: point register %s is no longer Equal to the clone taken before the call", st.Op, g.Name, n), e.detail(bh, idx, map[string]any{"reg": n}))
			ok = false
		}
	}
	if !ok {
		return false
	}
	// (4) Equal coincides with equality of abstract values (evaluated mod q)
	if isPoint {
		if !r.P[st.D].Equal(wantP.P) || !wantP.P.Equal(r.P[st.D]) {
			e.Res.Violate(e.key(st, "equal"), fmt.Sprintf("after %s on %s the receiver encodes like the specified value but Equal says otherwise", st.Op, g.Name), e.detail(bh, idx, nil))
			return false
		}
		for _, n := range pRegs {
			if n == st.D {
				continue
			}
			want := bytes.Equal(r.expP[n], r.expP[st.D])
			if r.P[st.D].Equal(r.P[n]) != want || r.P[n].Equal(r.P[st.D]) != want {
				e.Res.Violate(e.key(st, "equal-partition"), fmt.Sprintf("Equal on %s disagrees with equality of values (registers %s, %s)", g.Name, st.D, n), e.detail(bh, idx, nil))
				return false
			}
		}
	} else {
		for _, n := range sRegs {
			if n == st.D || r.raw[n] || r.raw[st.D] {
				continue // Equal on unreduced values is outside C02/C03
			}
			want := bytes.Equal(r.expS[n], r.expS[st.D])
			if r.S[st.D].Equal(r.S[n]) != want || r.S[n].Equal(r.S[st.D]) != want {
				e.Res.Violate(e.key(st, "equal-partition"), fmt.Sprintf("scalar Equal on %s disagrees with equality of residues", g.Name), e.detail(bh, idx, nil))
				return false
			}
		}
	}
	return true
}

func role(st Step, n string) string {
	switch {
	case n == st.A && n == st.B:
		return "a,b"
	case n == st.A:
		return "a"
	case n == st.B:
		return "b"
	}
	return "bystander"
}

// codecScalar sets dst := decode(encode(src)) through the binding's codec path
// and checks the C03 observables (length, same bytes on every path).
func (e *Env) codecScalar(dst, src kyber.Scalar) error {
	g := e.G
	ref, err := src.MarshalBinary()
	if err != nil {
		return fmt.Errorf("MarshalBinary: %w", err)
	}
	if len(ref) != g.Group.ScalarLen() || len(ref) != src.MarshalSize() {
		return fmt.Errorf("scalar encoding has %d bytes, ScalarLen=%d MarshalSize=%d", len(ref), g.Group.ScalarLen(), src.MarshalSize())
	}
	switch e.Bind.Codec {
	case 0:
		in := append([]byte(nil), ref...)
		if err := dst.UnmarshalBinary(in); err != nil {
			return fmt.Errorf("UnmarshalBinary of a fresh encoding: %w", err)
		}
		if !bytes.Equal(in, ref) {
			return fmt.Errorf("UnmarshalBinary modified the caller's input slice: %x -> %x", ref, in)
		}
	case 1:
		var buf bytes.Buffer
		n, err := src.MarshalTo(&buf)
		if err != nil || n != len(ref) || !bytes.Equal(buf.Bytes(), ref) {
			return fmt.Errorf("MarshalTo wrote %x (n=%d, err=%v), MarshalBinary gave %x", buf.Bytes(), n, err, ref)
		}
		buf.Write([]byte{0xAA, 0xBB}) // trailing bytes must stay unread
		n, err = dst.UnmarshalFrom(&chunkReader{&buf, e.chunk()}) // an io.Reader may deliver short reads
		if err != nil || n != len(ref) || buf.Len() != 2 {
			return fmt.Errorf("UnmarshalFrom consumed n=%d (left %d) err=%v, want %d", n, buf.Len(), err, len(ref))
		}
	case 2:
		hs, err := kenc.ScalarToStringHex(g.Group, src)
		if err != nil || hs != hex.EncodeToString(ref) {
			return fmt.Errorf("ScalarToStringHex gave %q (err=%v), MarshalBinary gave %x", hs, err, ref)
		}
		var buf bytes.Buffer
		if err := kenc.WriteHexScalar(g.Group, &buf, src); err != nil || buf.String() != hs {
			return fmt.Errorf("WriteHexScalar gave %q err=%v want %q", buf.String(), err, hs)
		}
		s2, err := kenc.ReadHexScalar(g.Group, &buf)
		if err != nil {
			return fmt.Errorf("ReadHexScalar: %w", err)
		}
		s3, err := kenc.StringHexToScalar(g.Group, hs)
		if err != nil {
			return fmt.Errorf("StringHexToScalar: %w", err)
		}
		if !s2.Equal(s3) {
			return fmt.Errorf("ReadHexScalar and StringHexToScalar disagree")
		}
		dst.Set(s3)
	}
	return nil
}

func (e *Env) codecPoint(dst, src kyber.Point) error {
	g := e.G
	ref, err := src.MarshalBinary()
	if err != nil {
		return fmt.Errorf("MarshalBinary: %w", err)
	}
	if len(ref) != g.Group.PointLen() || len(ref) != src.MarshalSize() {
		return fmt.Errorf("point encoding has %d bytes, PointLen=%d MarshalSize=%d", len(ref), g.Group.PointLen(), src.MarshalSize())
	}
	switch e.Bind.Codec {
	case 0:
		in := append([]byte(nil), ref...)
		if err := dst.UnmarshalBinary(in); err != nil {
			return fmt.Errorf("UnmarshalBinary of a fresh encoding: %w", err)
		}
		if !bytes.Equal(in, ref) {
			return fmt.Errorf("UnmarshalBinary modified the caller's input slice: %x -> %x", ref, in)
		}
	case 1:
		var buf bytes.Buffer
		n, err := src.MarshalTo(&buf)
		if err != nil || n != len(ref) || !bytes.Equal(buf.Bytes(), ref) {
			return fmt.Errorf("MarshalTo wrote %x (n=%d, err=%v), MarshalBinary gave %x", buf.Bytes(), n, err, ref)
		}
		buf.Write([]byte{0xAA, 0xBB})
		n, err = dst.UnmarshalFrom(&chunkReader{&buf, e.chunk()})
		if err != nil || n != len(ref) || buf.Len() != 2 {
			return fmt.Errorf("UnmarshalFrom consumed n=%d (left %d) err=%v, want %d", n, buf.Len(), err, len(ref))
		}
	case 2:
		hs, err := kenc.PointToStringHex(g.Group, src)
		if err != nil || hs != hex.EncodeToString(ref) {
			return fmt.Errorf("PointToStringHex gave %q (err=%v), MarshalBinary gave %x", hs, err, ref)
		}
		var buf bytes.Buffer
		if err := kenc.WriteHexPoint(&buf, src); err != nil || buf.String() != hs {
			return fmt.Errorf("WriteHexPoint gave %q err=%v want %q", buf.String(), err, hs)
		}
		p2, err := kenc.ReadHexPoint(g.Group, &buf)
		if err != nil {
			return fmt.Errorf("ReadHexPoint: %w", err)
		}
		p3, err := kenc.StringHexToPoint(g.Group, hs)
		if err != nil {
			return fmt.Errorf("StringHexToPoint: %w", err)
		}
		if !p2.Equal(p3) {
			return fmt.Errorf("ReadHexPoint and StringHexToPoint disagree")
		}
		dst.Set(p3)
	}
	return nil
}

// chunkReader delivers at most n bytes per Read (n <= 0: no limit), as a
// network connection or pipe may.
type chunkReader struct {
	r io.Reader
	n int
}

func (c *chunkReader) Read(p []byte) (int, error) {
	if c.n > 0 && len(p) > c.n {
		p = p[:c.n]
	}
	return c.r.Read(p)
}

// chunk cycles the read granularity over calls: 1 byte, 7 bytes, unlimited.
func (e *Env) chunk() int {
	e.chunkCtr++
	return []int{1, 7, 0}[e.chunkCtr%3]
}
