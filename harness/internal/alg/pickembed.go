//go:build !constantTime

package alg

import (
	"bytes"
	"crypto/cipher"
	"encoding/hex"
	"encoding/json"
	"fmt"
	"math/big"
	"runtime"

	"go.dedis.ch/kyber/v4"
	"go.dedis.ch/kyber/v4/group/p256"
	"go.dedis.ch/kyber/v4/pairing/bn256"
	"go.dedis.ch/kyber/v4/xof/blake2xb"

	"verifharness/internal/core"
	"verifharness/internal/groups"
)

// ---- replay of spec/PickEmbed.tla behaviours (C17) ----

type peStep struct {
	Op   string `json:"op"`
	Kind string `json:"kind"`
	Seed string `json:"seed"`
	R    string `json:"r"`
	R2   string `json:"r2"`
	P    string `json:"p"`
	P2   string `json:"p2"`
	K    string `json:"k"`
	DL   string `json:"dl"`
	DC   string `json:"dc"`
	M    string `json:"m"`
	Dst  string `json:"dst"`
	Obs  *struct {
		Rel  string   `json:"rel"`
		Data []string `json:"data"`
	} `json:"obs"`
}

// advStream is a cipher.Stream whose first `prefix` key-stream bytes are a
// constant (adversarial prefix forcing retries), followed by a seeded XOF.
type advStream struct {
	prefix []byte // key-stream bytes delivered first (adversarial), then the seeded XOF
	used   int
	x      kyber.XOF
	drawn  *int
}

func (a *advStream) XORKeyStream(dst, src []byte) {
	for i := range src {
		var k byte
		if a.used < len(a.prefix) {
			k = a.prefix[a.used]
			a.used++
		} else {
			var b [1]byte
			a.x.XORKeyStream(b[:], b[:])
			k = b[0]
		}
		dst[i] = src[i] ^ k
	}
	if a.drawn != nil {
		*a.drawn += len(src)
	}
}

func (a *advStream) clone() *advStream {
	return &advStream{prefix: a.prefix, used: a.used, x: a.x.Clone(), drawn: new(int)}
}

// fieldModulus: the modulus of the coordinate field (curves) or of the residue ring, for the
// stream kinds whose first candidate is exactly that value.
func fieldModulus(g *groups.Info) *big.Int {
	switch g.Family {
	case "ed25519":
		return new(big.Int).Sub(new(big.Int).Lsh(big.NewInt(1), 255), big.NewInt(19))
	case "p256":
		return hexBig("ffffffff00000001000000000000000000000000ffffffffffffffffffffffff")
	case "qr":
		if q, ok := g.Group.(*p256.QrSuite); ok {
			return q.P
		}
	}
	return nil
}

func newAdv(g *groups.Info, runSeed int64, seed, kind string, plen int) *advStream {
	s := &advStream{x: blake2xb.New([]byte(fmt.Sprintf("c17-%d-%s", runSeed, seed))), drawn: new(int)}
	switch kind {
	case "zeros":
		s.prefix = bytes.Repeat([]byte{0x00}, 3*plen+5)
	case "ones":
		s.prefix = bytes.Repeat([]byte{0xff}, 3*plen+5)
	case "modBE", "modLE", "ordBE", "ordLE":
		// the first candidate drawn is exactly the field modulus / the group order
		v := fieldModulus(g)
		if kind[:3] == "ord" {
			v = g.Order
		}
		if v != nil {
			w := plen
			if kind[:3] == "ord" {
				w = (g.Order.BitLen() + 7) / 8
			} else if g.Family == "p256" {
				w = 32
			}
			b := make([]byte, w)
			if v.BitLen() <= 8*w {
				v.FillBytes(b)
				if kind[3:] == "LE" {
					b = reverse(b)
				}
				s.prefix = b
			}
		}
	}
	return s
}

var _ cipher.Stream = (*advStream)(nil)

func peData(g *groups.Info, embedLen int, dl, dc string, runSeed int64) []byte {
	n := map[string]int{"0": 0, "1": 1, "Lm1": embedLen - 1, "L": embedLen, "Lp1": embedLen + 1, "Lp8": embedLen + 8}[dl]
	if n < 0 {
		n = 0
	}
	b := make([]byte, n)
	switch dc {
	case "f":
		for i := range b {
			b[i] = 0xff
		}
	case "r":
		core.Rng(runSeed, "c17data", g.Name, dl).Read(b)
	}
	return b
}

func peMsg(m string, runSeed int64) []byte {
	n := map[string]int{"m0": 0, "m1": 1, "m64": 64, "m300": 300}[m]
	b := make([]byte, n)
	core.Rng(runSeed, "c17msg", m).Read(b)
	return b
}

// hashTo hashes (msg, dst) to the group if it has a hash-to-group function.
func hashTo(g *groups.Info, p kyber.Point, msg []byte, dst string) (kyber.Point, bool) {
	tag := "VERIF-C17-TAG-" + dst
	switch x := p.(type) {
	case interface {
		Hash(m []byte, dst string) kyber.Point
	}: // edwards25519
		return x.Hash(msg, tag), true
	case interface {
		Hash2(msg, dst []byte) kyber.Point
	}: // circl, gnark
		return x.Hash2(msg, []byte(tag)), true
	}
	if g.Name == "bn256-g1" {
		q := bn256.HashG1(msg, []byte(tag))
		return p.Set(q), true
	}
	if h, ok := p.(kyber.HashablePoint); ok {
		// no tag parameter: fold the tag into the message (injective: fixed-length tag prefix)
		return h.Hash(append([]byte(tag), msg...)), true
	}
	return nil, false
}

func (e *Env) isMember(p kyber.Point) bool {
	// q*P = O on the canonical route (double-and-add over Add)
	r := e.refMul(e.G.Order, p.Clone())
	return r.Equal(e.G.NewPoint().Null())
}

func runPE(g *groups.Info, bhs [][]peStep, cfg Config, res *core.Result, chunk, nchunks int) int {
	env, err := NewEnv(g, Bindings(g, cfg.Seed, 1)[0], res, cfg.Prop)
	if err != nil {
		res.Skip("env:" + err.Error())
		return 0
	}
	embedLen := 0
	if g.CanEmbed {
		embedLen = g.NewPoint().EmbedLen()
	}
	plen := g.Group.PointLen()
	max := cfg.Max
	if g.Slow {
		max = cfg.MaxSlow
	}
	var keep uint64 = ^uint64(0)
	if max > 0 && max < len(bhs) {
		keep = uint64(float64(^uint64(0)) * float64(max) / float64(len(bhs)))
	}
	done := 0
	vkey := func(op, kind string) string { return fmt.Sprintf("%s/%s/%s/%s", cfg.Prop, g.Name, op, kind) }
	for j, bh := range bhs {
		if j%nchunks != chunk {
			continue
		}
		id := fmt.Sprint(j)
		if cfg.LastOp != "" && bh[len(bh)-1].Op != cfg.LastOp {
			continue
		}
		if core.Hash64(fmt.Sprint(cfg.Seed), g.Name, id) > keep {
			continue
		}
		msgBuf := make([]byte, 512)
		st := map[string]*advStream{}
		kt := map[string]kyber.Scalar{}
		pt := map[string]kyber.Point{}
		data := map[string][]byte{} // expected Data() per point register (nil = unspecified)
		ok := true
		detail := func(step int, extra map[string]any) map[string]any {
			d := map[string]any{"group": g.Name, "behaviour": bh, "step": step}
			for k, v := range extra {
				d[k] = v
			}
			return d
		}
		for i, s := range bh {
			if !ok {
				break
			}
			var produced string
			msg, stack, pan := core.Try(func() {
				switch s.Op {
				case "init":
					st["r1"] = newAdv(g, cfg.Seed, "A", s.Kind, plen)
					st["r2"] = st["r1"].clone()
				case "newstream":
					st[s.R] = newAdv(g, cfg.Seed, s.Seed, s.Kind, plen)
				case "copystream":
					st[s.R] = st[s.R2].clone()
				case "spick":
					// Scalar.Pick: in [0,q), a function of the bytes drawn (C02)
					k := g.Group.Scalar()
					if ret := k.Pick(st[s.R]); ret != kyber.Scalar(k) {
						res.Violate(vkey("spick", "return-not-receiver"), "Scalar.Pick returned an object other than its receiver", detail(i, nil))
					}
					kt[s.K] = k
					enc, err := k.MarshalBinary()
					res.Eval(g.Name + "|" + id + "|" + fmt.Sprint(i))
					if err != nil || len(enc) != g.Group.ScalarLen() || bytesToInt(g, enc).Cmp(g.Order) >= 0 {
						res.Violate(vkey("spick", "out-of-range"), fmt.Sprintf("Scalar.Pick on %s returned a value outside [0,q) or a malformed encoding", g.Name), detail(i, map[string]any{"enc": hex.EncodeToString(enc)}))
						ok = false
						return
					}
					other := "k1"
					if s.K == "k1" {
						other = "k2"
					}
					if o, has := kt[other]; has && s.Obs != nil {
						eq := k.Equal(o)
						switch s.Obs.Rel {
						case "equal":
							if !eq {
								res.Violate(vkey("spick", "not-deterministic"), fmt.Sprintf("Scalar.Pick on %s: same bytes drawn, different scalars", g.Name), detail(i, nil))
								ok = false
							}
						case "differ":
							if eq {
								res.Violate(vkey("spick", "collision"), fmt.Sprintf("Scalar.Pick on %s: different streams gave the same scalar", g.Name), detail(i, nil))
								ok = false
							}
						}
					}
				case "pick":
					if !g.CanPick {
						res.Skip("cap:pick:" + g.Name)
						ok = false
						return
					}
					p := g.NewPoint()
					if ret := p.Pick(st[s.R]); ret != kyber.Point(p) {
						res.Violate(vkey("pick", "return-not-receiver"), "Pick returned an object other than its receiver", detail(i, nil))
					}
					pt[s.P], data[s.P], produced = p, nil, s.P
				case "embed":
					if !g.CanEmbed {
						res.Skip("cap:embed:" + g.Name)
						ok = false
						return
					}
					d := peData(g, embedLen, s.DL, s.DC, cfg.Seed)
					in := make([]byte, len(d)) // non-nil even when empty (nil means Pick)
					copy(in, d)
					p := g.NewPoint()
					if ret := p.Embed(in, st[s.R]); ret != kyber.Point(p) {
						res.Violate(vkey("embed", "return-not-receiver"), "Embed returned an object other than its receiver", detail(i, nil))
					}
					if !bytes.Equal(in, d) {
						res.Violate(vkey("embed", "input-modified"), "Embed modified the caller's data slice", detail(i, nil))
					}
					want := d
					if len(want) > embedLen {
						want = want[:embedLen]
					}
					if want == nil {
						want = []byte{}
					}
					pt[s.P], data[s.P], produced = p, want, s.P
				case "hash":
					// all messages of a behaviour travel in ONE caller-owned buffer that is overwritten in
					// place between calls (exposes caches keyed by the caller's slice); the library must not
					// write to it
					want := peMsg(s.M, cfg.Seed)
					copy(msgBuf, want)
					in := msgBuf[:len(want)]
					p, has := hashTo(g, g.NewPoint(), in, s.Dst)
					if has && !bytes.Equal(in, want) {
						res.Violate(vkey("hash", "input-modified"), "hash-to-group modified the caller's message slice", detail(i, nil))
					}
					if !has {
						res.Skip("cap:hash:" + g.Name)
						ok = false
						return
					}
					pt[s.P], data[s.P], produced = p, nil, s.P
				case "codec":
					buf, err := pt[s.P2].MarshalBinary()
					if err != nil {
						res.Violate(vkey("codec", "marshal-error"), "MarshalBinary failed: "+err.Error(), detail(i, nil))
						ok = false
						return
					}
					p := g.NewPoint()
					if err := p.UnmarshalBinary(buf); err != nil {
						res.Violate(vkey("codec", "unmarshal-error"), "decoding the encoding of a "+srcOf(bh, s.P2, i)+" point failed: "+err.Error(), detail(i, map[string]any{"enc": hex.EncodeToString(buf)}))
						ok = false
						return
					}
					pt[s.P], data[s.P], produced = p, data[s.P2], s.P
				}
			})
			if pan {
				res.Violate(vkey(s.Op, "panic"), fmt.Sprintf("%s on %s panicked: %s", s.Op, g.Name, msg), detail(i, map[string]any{"stack": stack}))
				break
			}
			if !ok || produced == "" {
				continue
			}
			res.Eval(g.Name + "|" + id + "|" + fmt.Sprint(i))
			p := pt[produced]
			// membership
			member := false
			if m2, st2, pan2 := core.Try(func() { member = env.isMember(p) }); pan2 {
				res.Violate(vkey(s.Op, "unusable"), fmt.Sprintf("a point produced by %s on %s makes Add panic: %s", s.Op, g.Name, m2), detail(i, map[string]any{"stack": st2}))
				ok = false
				continue
			}
			if !member {
				res.Violate(vkey(s.Op, "not-member"), fmt.Sprintf("%s on %s produced a point P with q*P != O", s.Op, g.Name), detail(i, nil))
				ok = false
				continue
			}
			// lossless embedding
			if want := data[produced]; want != nil {
				got, err := p.Data()
				if err != nil || !bytes.Equal(got, want) {
					res.Violate(vkey(s.Op, "data"), fmt.Sprintf("Data() after %s on %s does not return the embedded bytes (err=%v)", s.Op, g.Name, err),
						detail(i, map[string]any{"want": hex.EncodeToString(want), "got": hex.EncodeToString(got)}))
					ok = false
					continue
				}
			}
			// relation with the other register as predicted by the model
			if s.Obs != nil {
				other := "p1"
				if produced == "p1" {
					other = "p2"
				}
				if q, has := pt[other]; has {
					eq := p.Equal(q)
					b1, _ := p.MarshalBinary()
					b2, _ := q.MarshalBinary()
					switch s.Obs.Rel {
					case "equal":
						if !eq || !bytes.Equal(b1, b2) {
							res.Violate(vkey(s.Op, "not-deterministic"), fmt.Sprintf("%s on %s: same bytes drawn / same message and tag, different points", s.Op, g.Name), detail(i, nil))
							ok = false
						}
					case "differ":
						if eq {
							res.Violate(vkey(s.Op, "collision"), fmt.Sprintf("%s on %s: different inputs gave the same point", s.Op, g.Name), detail(i, nil))
							ok = false
						}
					}
				}
			}
		}
		done++
		if j%2999 == 0 {
			res.Sample(map[string]any{"group": g.Name, "behaviour": bh})
		}
	}
	return done
}

func srcOf(bh []peStep, reg string, upto int) string {
	for i := upto - 1; i >= 0; i-- {
		if bh[i].P == reg {
			return bh[i].Op
		}
	}
	return "?"
}

// RunPickEmbed replays PickEmbed behaviours on every group instance.
func RunPickEmbed(cfg Config, res *core.Result) error {
	var bhs [][]peStep
	err := core.ReadLines(cfg.In, func(line []byte) error {
		var b []peStep
		if err := json.Unmarshal(line, &b); err != nil {
			return err
		}
		bhs = append(bhs, b)
		return nil
	})
	if err != nil {
		return err
	}
	if len(bhs) == 0 {
		return fmt.Errorf("no behaviours")
	}
	res.AddTraces(len(bhs))
	var names []string
	for _, g := range groups.All() {
		if cfg.Groups != "" && cfg.Groups != g.Name {
			continue
		}
		names = append(names, g.Name)
	}
	// behaviours are independent of one another: each group's list is split into chunks so that the slow groups
	// do not leave the other cores idle at the end
	const nchunks = 6
	per := make([]int, len(names))
	part := make([]int, len(names)*nchunks)
	core.Parallel(len(part), runtime.NumCPU(), func(i int) {
		part[i] = runPE(groups.ByName(names[i/nchunks]), bhs, cfg, res, i%nchunks, nchunks)
	})
	for i, n := range part {
		per[i/nchunks] += n
	}
	m := map[string]int{}
	total := 0
	for i, n := range names {
		m[n] = per[i]
		total += per[i]
	}
	res.SetExtra("behaviours_replayed", total)
	res.SetExtra("behaviours_replayed_per_group", m)
	if len(res.Samples) == 0 {
		res.Sample(map[string]any{"behaviour": bhs[0]})
	}
	return nil
}

// lenField extracts the embedded-length field from a point encoding; the
// layout per group family is transcribed from the Embed implementations.
func lenField(g *groups.Info, enc []byte) (int, bool) {
	switch g.Name {
	case "ed25519", "ed25519-vartime-mul", "edvt-proj", "edvt-ext":
		return int(enc[0]), true
	case "p256":
		return int(enc[32]), true // 0x04 || x(32) || y(32): low byte of x
	case "bn256-g1":
		return int(enc[0]), true // x big-endian: high byte of x
	case "qr512", "qr72-r44":
		n := len(enc)
		return int(enc[n-2])<<8 | int(enc[n-1]), true
	}
	return 0, false
}

// DataRange checks, on random members of every embedding-capable group, that
// Data() reports an error exactly when the length field exceeds EmbedLen and
// otherwise returns that many bytes.
func DataRange(cfg Config, res *core.Result, n int) {
	for _, g := range groups.All() {
		if !g.CanEmbed {
			continue
		}
		el := g.NewPoint().EmbedLen()
		st := blake2xb.New([]byte(fmt.Sprintf("c17-range-%d-%s", cfg.Seed, g.Name)))
		bad, good := 0, 0
		for i := 0; i < n; i++ {
			p := g.NewPoint().Pick(st)
			if i == 0 {
				p = g.NewPoint().Base()
			}
			enc, _ := p.MarshalBinary()
			lf, ok := lenField(g, enc)
			if !ok {
				break
			}
			d, err := p.Data()
			res.Eval(fmt.Sprintf("range|%s|%d", g.Name, i))
			if lf > el {
				bad++
				if err == nil {
					res.Violate(fmt.Sprintf("%s/%s/data/out-of-range-accepted", cfg.Prop, g.Name),
						fmt.Sprintf("Data() on %s returned no error for a point whose length field %d exceeds EmbedLen %d", g.Name, lf, el),
						map[string]any{"group": g.Name, "enc": hex.EncodeToString(enc)})
				}
			} else {
				good++
				if err != nil || len(d) != lf {
					res.Violate(fmt.Sprintf("%s/%s/data/in-range-rejected", cfg.Prop, g.Name),
						fmt.Sprintf("Data() on %s: length field %d within EmbedLen %d but got len=%d err=%v", g.Name, lf, el, len(d), err),
						map[string]any{"group": g.Name, "enc": hex.EncodeToString(enc)})
				}
			}
		}
		res.SetExtra("datarange_"+g.Name, map[string]int{"out_of_range": bad, "in_range": good})
	}
}
