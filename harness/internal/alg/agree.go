//go:build !constantTime

package alg

import (
	"bytes"
	"crypto/ed25519"
	"crypto/sha512"
	"encoding/hex"
	"encoding/json"
	"fmt"
	"math/big"
	"runtime"
	"strings"

	"go.dedis.ch/kyber/v4"
	"go.dedis.ch/kyber/v4/pairing"
	"go.dedis.ch/kyber/v4/sign/bls"

	"verifharness/internal/core"
	"verifharness/internal/groups"
)

// ---- C18: independent implementations of the same group agree bit-for-bit ----

type family struct {
	Name    string
	Members []string
	Ref     func() (refCurve, refPoint) // reference model and its identity (nil if none)
}

func families() []family {
	return []family{
		{"ed25519", []string{"ed25519", "ed25519-vartime-mul", "edvt-proj", "edvt-ext"}, func() (refCurve, refPoint) { e := newEdRef(); return e, e.Zero() }},
		{"p256", []string{"p256"}, func() (refCurve, refPoint) { w := newP256Ref(); return w, w.Zero() }},
		{"bn256-g1", []string{"bn256-g1"}, func() (refCurve, refPoint) {
			w := newBNRef("65000549695646603732796438742359905742825358107623003571877145026864184071783", nil)
			return w, w.Zero()
		}},
		{"bn254-g1", []string{"bn254-g1"}, func() (refCurve, refPoint) {
			w := newBNRef("21888242871839275222246405745257275088696311157297823662689037894645226208583", nil)
			return w, w.Zero()
		}},
		{"bls12381-g1", []string{"kilic-g1", "circl-g1", "gnark-g1"}, nil},
		{"bls12381-g2", []string{"kilic-g2", "circl-g2", "gnark-g2"}, nil},
		{"bls12381-gt", []string{"kilic-gt", "circl-gt", "gnark-gt"}, nil},
	}
}

// transcript runs a behaviour and returns, per step, the encoding of the destination
// ("" where the step could not be executed); scalar steps yield the residue in decimal.
func (e *Env) transcript(bh Behaviour) ([]string, bool) {
	g := e.G
	out := make([]string, len(bh))
	S := map[string]kyber.Scalar{}
	P := map[string]kyber.Point{}
	absS := map[string]AScalar{}
	for _, n := range sRegs {
		a := bh[0].S[n]
		r, ok := e.Eval(a)
		if !ok {
			return nil, false
		}
		s := g.Group.Scalar()
		if err := s.UnmarshalBinary(EncodeScalar(g, r)); err != nil {
			return nil, false
		}
		S[n], absS[n] = s, a
	}
	for _, n := range pRegs {
		c, ok := e.Canon(bh[0].P[n])
		if !ok {
			return nil, false
		}
		P[n] = g.Fix(c.P.Clone())
	}
	for i, st := range bh[1:] {
		if st.Op == "p.pick" || (st.Op == "p.base" && !g.CanBase) || (st.Op == "p.mul" && st.B == "nil" && !g.CanBase) {
			return out[:i+1], true // stop: not comparable across implementations
		}
		if st.Op == "s.inv" || st.Op == "s.div" {
			div := st.A
			if st.Op == "s.div" {
				div = st.B
			}
			rv, ok := e.Eval(absS[div])
			if !ok || rv.Sign() == 0 {
				return out[:i+1], true
			}
		}
		_, _, pan := core.Try(func() {
			switch st.Op {
			case "s.add":
				S[st.D].Add(S[st.A], S[st.B])
			case "s.sub":
				S[st.D].Sub(S[st.A], S[st.B])
			case "s.mul":
				S[st.D].Mul(S[st.A], S[st.B])
			case "s.div":
				S[st.D].Div(S[st.A], S[st.B])
			case "s.neg":
				S[st.D].Neg(S[st.A])
			case "s.inv":
				S[st.D].Inv(S[st.A])
			case "s.set":
				S[st.D].Set(S[st.A])
			case "s.clone":
				S[st.D] = S[st.A].Clone()
			case "s.zero":
				S[st.D].Zero()
			case "s.one":
				S[st.D].One()
			case "s.int":
				S[st.D].SetInt64(st.K)
			case "s.loadu":
				S[st.D].SetBytes(EncodeScalar(g, e.Bind.U))
			case "s.codec":
				b, _ := S[st.A].MarshalBinary()
				_ = S[st.D].UnmarshalBinary(b)
			case "p.add":
				P[st.D].Add(P[st.A], P[st.B])
			case "p.sub":
				P[st.D].Sub(P[st.A], P[st.B])
			case "p.neg":
				P[st.D].Neg(P[st.A])
			case "p.set":
				P[st.D].Set(P[st.A])
			case "p.clone":
				P[st.D] = g.Fix(P[st.A].Clone())
			case "p.mul":
				if st.B == "nil" {
					P[st.D].Mul(S[st.A], nil)
				} else {
					P[st.D].Mul(S[st.A], P[st.B])
				}
			case "p.null":
				P[st.D].Null()
			case "p.base":
				P[st.D].Base()
			case "p.codec":
				b, _ := P[st.A].MarshalBinary()
				_ = P[st.D].UnmarshalBinary(b)
			}
		})
		if pan {
			out[i+1] = "panic"
			return out[:i+2], true
		}
		if strings.HasPrefix(st.Op, "p.") {
			b, err := P[st.D].MarshalBinary()
			if err != nil {
				out[i+1] = "err:" + err.Error()
			} else {
				out[i+1] = hex.EncodeToString(b)
			}
		} else {
			var av AScalar
			_ = json.Unmarshal(st.V, &av)
			absS[st.D] = av
			b, _ := S[st.D].MarshalBinary()
			out[i+1] = "s:" + bytesToInt(g, b).String()
		}
	}
	return out, true
}

// RunAgree replays KyberAlgebra behaviours on every member of each family with
// shared binding and shared atoms and compares the transcripts with each other
// and with the arbitrary-precision reference model.
func RunAgree(cfg Config, res *core.Result) error {
	bhs, _, err := Load(cfg.In)
	if err != nil {
		return err
	}
	if len(bhs) == 0 {
		return fmt.Errorf("no behaviours")
	}
	res.AddTraces(len(bhs))
	fams := families()
	type tk struct{ fam, bind int }
	var tasks []tk
	for f := range fams {
		for b := 0; b < cfg.Bindings; b++ {
			tasks = append(tasks, tk{f, b})
		}
	}
	counts := make([]int, len(tasks))
	core.Parallel(len(tasks), runtime.NumCPU(), func(ti int) {
		t := tasks[ti]
		fam := fams[t.fam]
		lead := groups.ByName(fam.Members[0])
		binds := Bindings(lead, cfg.Seed, cfg.Bindings)
		bind := binds[t.bind]
		var envs []*Env
		var hEnc []byte
		for mi, name := range fam.Members {
			g := groups.ByName(name)
			env, err := NewEnv(g, bind, res, cfg.Prop)
			if err != nil {
				res.Skip("env:" + err.Error())
				return
			}
			if mi == 0 {
				hEnc, _ = env.H.MarshalBinary()
			} else {
				// share the atom H by its encoding
				h := g.NewPoint()
				if err := h.UnmarshalBinary(hEnc); err != nil {
					res.Violate(fmt.Sprintf("%s/%s/%s-vs-%s/decode-peer-encoding", cfg.Prop, fam.Name, fam.Members[0], name),
						fmt.Sprintf("%s cannot decode a point encoded by %s: %v", name, fam.Members[0], err), map[string]any{"enc": hex.EncodeToString(hEnc)})
					return
				}
				env.H = h
				bEnc0, _ := envs[0].B.MarshalBinary()
				bEnc, _ := env.B.MarshalBinary()
				if !bytes.Equal(bEnc0, bEnc) {
					res.Violate(fmt.Sprintf("%s/%s/%s-vs-%s/base", cfg.Prop, fam.Name, fam.Members[0], name), "generators encode differently", nil)
					return
				}
			}
			envs = append(envs, env)
		}
		var rc refCurve
		var rzero, rB, rH refPoint
		if fam.Ref != nil {
			rc, rzero = fam.Ref()
			bEnc, _ := envs[0].B.MarshalBinary()
			var ok1, ok2 bool
			rB, ok1 = rc.Decode(bEnc)
			rH, ok2 = rc.Decode(hEnc)
			if !ok1 || !ok2 {
				res.Violate(fmt.Sprintf("%s/%s/reference/atom-not-on-reference-curve", cfg.Prop, fam.Name), "generator or picked point is not on the reference curve", map[string]any{"B": hex.EncodeToString(bEnc), "H": hex.EncodeToString(hEnc)})
				return
			}
		}
		max := cfg.Max
		if lead.Slow {
			max = cfg.MaxSlow
		}
		var keep uint64 = ^uint64(0)
		if max > 0 && max < len(bhs) {
			keep = uint64(float64(^uint64(0)) * float64(max) / float64(len(bhs)))
		}
		refCache := map[string][]byte{}
		for j, bh := range bhs {
			id := fmt.Sprint(j)
			if core.Hash64(fmt.Sprint(cfg.Seed), fam.Name, fmt.Sprint(t.bind), id) > keep {
				continue
			}
			var trs [][]string
			okAll := true
			for _, env := range envs {
				tr, ok := env.transcript(bh)
				if !ok {
					okAll = false
					break
				}
				trs = append(trs, tr)
			}
			if !okAll {
				res.Skip("inadmissible-binding")
				continue
			}
			counts[ti]++
			detail := func(step int, extra map[string]any) map[string]any {
				d := map[string]any{"family": fam.Name, "group": fam.Members[0], "binding": bind.Describe(), "behaviour": bh, "step": step}
				for k, v := range extra {
					d[k] = v
				}
				return d
			}
			for mi := 1; mi < len(trs); mi++ {
				n := len(trs[0])
				if len(trs[mi]) < n {
					n = len(trs[mi])
				}
				for k := 1; k < n; k++ {
					res.Eval(fam.Name + "|" + bind.Name + "|" + id + "|" + fmt.Sprint(k) + "|" + fam.Members[mi])
					if trs[0][k] != trs[mi][k] {
						res.Violate(fmt.Sprintf("%s/%s/%s-vs-%s/%s/differs", cfg.Prop, fam.Name, fam.Members[0], fam.Members[mi], bh[k].Op),
							fmt.Sprintf("%s and %s disagree after %s", fam.Members[0], fam.Members[mi], bh[k].Op),
							detail(k, map[string]any{fam.Members[0]: trs[0][k], fam.Members[mi]: trs[mi][k]}))
						break
					}
				}
			}
			if rc != nil {
				for k := 1; k < len(trs[0]); k++ {
					if !strings.HasPrefix(bh[k].Op, "p.") || trs[0][k] == "" {
						continue
					}
					var av APoint
					_ = json.Unmarshal(bh[k].V, &av)
					rb, ok1 := envs[0].Eval(av["B"])
					rh, ok2 := envs[0].Eval(av["H"])
					if !ok1 || !ok2 {
						break
					}
					key := rb.Text(62) + "|" + rh.Text(62)
					want, has := refCache[key]
					if !has {
						pt := rc.Add(refScalarMul(rc, rb, rB, rzero), refScalarMul(rc, rh, rH, rzero))
						want = rc.Encode(pt)
						refCache[key] = want
					}
					res.Eval(fam.Name + "|" + bind.Name + "|" + id + "|" + fmt.Sprint(k) + "|ref")
					if trs[0][k] != hex.EncodeToString(want) {
						res.Violate(fmt.Sprintf("%s/%s/reference/%s/differs", cfg.Prop, fam.Name, bh[k].Op),
							fmt.Sprintf("%s disagrees with the arbitrary-precision reference model after %s", fam.Members[0], bh[k].Op),
							detail(k, map[string]any{"impl": trs[0][k], "reference": hex.EncodeToString(want)}))
						break
					}
				}
			}
			if j%1999 == 0 {
				res.Sample(map[string]any{"family": fam.Name, "binding": bind.Describe(), "behaviour": bh, "transcript": trs[0]})
			}
		}
	})
	total := 0
	per := map[string]int{}
	for i, t := range tasks {
		total += counts[i]
		per[fams[t.fam].Name] += counts[i]
	}
	res.SetExtra("behaviours_compared", total)
	res.SetExtra("behaviours_compared_per_family", per)
	blsAgree(cfg, res)
	edKeyAgree(cfg, res)
	if len(res.Samples) == 0 {
		res.Sample(map[string]any{"behaviour": bhs[0]})
	}
	return nil
}

// blsAgree: the three BLS12-381 back-ends give identical hash-to-curve outputs,
// pairings and BLS signatures for the same inputs.
func blsAgree(cfg Config, res *core.Result) {
	names := []string{"kilic", "circl", "gnark"}
	var suites []pairing.Suite
	for _, n := range names {
		g1, _, _ := suiteGroups(n)
		suites = append(suites, g1.Suite)
	}
	rng := core.Rng(cfg.Seed, "blsagree")
	n := 6
	if cfg.Bindings > 3 {
		n = 24
	}
	for i := 0; i < n; i++ {
		msg := make([]byte, []int{0, 1, 31, 32, 33, 100}[i%6])
		rng.Read(msg)
		a := new(big.Int).Rand(rng, groups.OrderBLS)
		b := new(big.Int).Rand(rng, groups.OrderBLS)
		if i == 0 {
			a.SetInt64(0)
		}
		if i == 1 {
			b.Sub(groups.OrderBLS, big.NewInt(1))
		}
		var h1, h2, pe, sig1, sig2, pub []string
		for si, s := range suites {
			sa := s.G1().Scalar().SetBytes(a.Bytes())
			sb := s.G1().Scalar().SetBytes(b.Bytes())
			enc := func(p kyber.Point) string { x, _ := p.MarshalBinary(); return hex.EncodeToString(x) }
			hp1 := s.G1().Point().(kyber.HashablePoint).Hash(msg)
			hp2 := s.G2().Point().(kyber.HashablePoint).Hash(msg)
			h1 = append(h1, enc(hp1))
			h2 = append(h2, enc(hp2))
			P := s.G1().Point().Mul(sa, hp1)
			Q := s.G2().Point().Mul(sb, nil)
			pe = append(pe, enc(s.Pair(P, Q)))
			// BLS signatures, both assignments, same private key
			sch1 := bls.NewSchemeOnG1(s)
			sch2 := bls.NewSchemeOnG2(s)
			key := s.G1().Scalar().SetBytes(b.Bytes())
			sg1, e1 := sch1.Sign(key, msg)
			sg2, e2 := sch2.Sign(key, msg)
			if e1 != nil || e2 != nil {
				res.Violate(fmt.Sprintf("%s/bls12381/%s/bls-sign-error", cfg.Prop, names[si]), fmt.Sprintf("BLS signing failed: %v %v", e1, e2), nil)
			}
			sig1 = append(sig1, hex.EncodeToString(sg1))
			sig2 = append(sig2, hex.EncodeToString(sg2))
			pub = append(pub, enc(s.G2().Point().Mul(key, nil)))
		}
		cmp := func(what string, v []string) {
			for k := 1; k < len(v); k++ {
				res.Eval(fmt.Sprintf("blsagree|%s|%d|%d", what, i, k))
				if v[k] != v[0] {
					res.Violate(fmt.Sprintf("%s/bls12381/%s-vs-%s/%s/differs", cfg.Prop, names[0], names[k], what),
						fmt.Sprintf("%s and %s disagree on %s", names[0], names[k], what), map[string]any{"msg": hex.EncodeToString(msg), names[0]: v[0], names[k]: v[k]})
				}
			}
		}
		cmp("hash-to-g1", h1)
		cmp("hash-to-g2", h2)
		cmp("pairing", pe)
		cmp("bls-signature-g1", sig1)
		cmp("bls-signature-g2", sig2)
		cmp("public-key", pub)
	}
}

// edKeyAgree: Ed25519 key derivation agrees with crypto/ed25519 on every implementation.
func edKeyAgree(cfg Config, res *core.Result) {
	rng := core.Rng(cfg.Seed, "edkey")
	for i := 0; i < 16; i++ {
		seed := make([]byte, 32)
		rng.Read(seed)
		if i == 0 {
			seed = make([]byte, 32)
		}
		if i == 1 {
			seed = bytes.Repeat([]byte{0xff}, 32)
		}
		pub := ed25519.NewKeyFromSeed(seed).Public().(ed25519.PublicKey)
		h := sha512.Sum512(seed)
		h[0] &= 248
		h[31] &= 127
		h[31] |= 64
		for _, name := range []string{"ed25519", "ed25519-vartime-mul", "edvt-proj", "edvt-ext"} {
			g := groups.ByName(name)
			var le []byte = h[:32]
			if !g.ScalarLE {
				le = reverse(h[:32])
			}
			s := g.Group.Scalar().SetBytes(le)
			p := g.NewPoint().Mul(s, nil)
			b, _ := p.MarshalBinary()
			res.Eval(fmt.Sprintf("edkey|%s|%d", name, i))
			if !bytes.Equal(b, pub) {
				res.Violate(fmt.Sprintf("%s/ed25519/%s-vs-crypto-ed25519/key-derivation/differs", cfg.Prop, name),
					"public key derived from a seed differs from crypto/ed25519", map[string]any{"seed": hex.EncodeToString(seed), "kyber": hex.EncodeToString(b), "std": hex.EncodeToString(pub)})
			}
		}
	}
}
