//go:build !constantTime

package alg

import (
	"bytes"
	"compress/gzip"
	"crypto/sha512"
	"embed"
	"encoding/hex"
	"encoding/json"
	"fmt"
	"io"
	"math/big"
	"strings"

	"go.dedis.ch/kyber/v4"
	"go.dedis.ch/kyber/v4/group/edwards25519"
	"go.dedis.ch/kyber/v4/pairing/bls12381/circl"
	"go.dedis.ch/kyber/v4/pairing/bls12381/gnark"
	"go.dedis.ch/kyber/v4/pairing/bls12381/kilic"

	"verifharness/internal/core"
)

// RFC 9380 vectors as fixed behaviours (C17). BLS12-381 vectors are the RFC's
// JSON files (copied from cloudflare/circl's testdata); the edwards25519
// vectors are those of RFC 9380 appendix J.5.1.

//go:embed testdata/*.json.gz
var h2cFS embed.FS

type h2cFile struct {
	Ciphersuite string `json:"ciphersuite"`
	Dst         string `json:"dst"`
	Vectors     []struct {
		Msg string `json:"msg"`
		P   struct {
			X string `json:"x"`
			Y string `json:"y"`
		} `json:"P"`
	} `json:"vectors"`
}

var blsP, _ = new(big.Int).SetString("1a0111ea397fe69a4b1ba7b6434bacd764774b84f38512bf6730d2a0f6b0f6241eabfffeb153ffffb9feffffffffaaab", 16)

func hexInt(s string) *big.Int {
	v, ok := new(big.Int).SetString(strings.TrimPrefix(strings.TrimSpace(s), "0x"), 16)
	if !ok {
		panic("bad hex " + s)
	}
	return v
}

func larger(y *big.Int) bool { // y > (p-1)/2
	h := new(big.Int).Rsh(new(big.Int).Sub(blsP, big.NewInt(1)), 1)
	return y.Cmp(h) > 0
}

func compressG1(x, y *big.Int) []byte {
	out := make([]byte, 48)
	x.FillBytes(out)
	out[0] |= 0x80
	if larger(y) {
		out[0] |= 0x20
	}
	return out
}

func compressG2(x0, x1, y0, y1 *big.Int) []byte {
	out := make([]byte, 96)
	x1.FillBytes(out[:48])
	x0.FillBytes(out[48:])
	out[0] |= 0x80
	sign := false
	if y1.Sign() != 0 {
		sign = larger(y1)
	} else {
		sign = larger(y0)
	}
	if sign {
		out[0] |= 0x20
	}
	return out
}

func loadH2C(name string) (*h2cFile, error) {
	f, err := h2cFS.Open("testdata/" + name)
	if err != nil {
		return nil, err
	}
	defer f.Close()
	zr, err := gzip.NewReader(f)
	if err != nil {
		return nil, err
	}
	raw, err := io.ReadAll(zr)
	if err != nil {
		return nil, err
	}
	var v h2cFile
	return &v, json.Unmarshal(raw, &v)
}

// RunH2C checks the RFC 9380 vectors on every implementation.
func RunH2C(cfg Config, res *core.Result) error {
	check := func(impl, suite, msg string, got kyber.Point, want []byte) {
		res.Eval("h2c|" + impl + "|" + suite + "|" + msg)
		b, err := got.MarshalBinary()
		if err != nil || !bytes.Equal(b, want) {
			res.Violate(fmt.Sprintf("%s/%s/h2c-vector/%s", cfg.Prop, impl, suite),
				fmt.Sprintf("%s does not reproduce the RFC 9380 vector of %s", impl, suite),
				map[string]any{"msg": msg, "want": hex.EncodeToString(want), "got": hex.EncodeToString(b)})
		}
	}
	g1, err := loadH2C("BLS12381G1_XMD-SHA-256_SSWU_RO_.json.gz")
	if err != nil {
		return err
	}
	for _, v := range g1.Vectors {
		want := compressG1(hexInt(v.P.X), hexInt(v.P.Y))
		dst := []byte(g1.Dst)
		check("circl-g1", g1.Ciphersuite, v.Msg, circl.G1.Point().(interface {
			Hash2(msg, dst []byte) kyber.Point
		}).Hash2([]byte(v.Msg), dst), want)
		check("gnark-g1", g1.Ciphersuite, v.Msg, gnark.G1.Point().(interface {
			Hash2(msg, dst []byte) kyber.Point
		}).Hash2([]byte(v.Msg), dst), want)
		check("kilic-g1", g1.Ciphersuite, v.Msg, kilic.NewGroupG1(dst...).Point().(kyber.HashablePoint).Hash([]byte(v.Msg)), want)
	}
	g2, err := loadH2C("BLS12381G2_XMD-SHA-256_SSWU_RO_.json.gz")
	if err != nil {
		return err
	}
	for _, v := range g2.Vectors {
		xs := strings.Split(v.P.X, ",")
		ys := strings.Split(v.P.Y, ",")
		want := compressG2(hexInt(xs[0]), hexInt(xs[1]), hexInt(ys[0]), hexInt(ys[1]))
		dst := []byte(g2.Dst)
		check("circl-g2", g2.Ciphersuite, v.Msg, circl.G2.Point().(interface {
			Hash2(msg, dst []byte) kyber.Point
		}).Hash2([]byte(v.Msg), dst), want)
		check("gnark-g2", g2.Ciphersuite, v.Msg, gnark.G2.Point().(interface {
			Hash2(msg, dst []byte) kyber.Point
		}).Hash2([]byte(v.Msg), dst), want)
		check("kilic-g2", g2.Ciphersuite, v.Msg, kilic.NewGroupG2(dst...).Point().(kyber.HashablePoint).Hash([]byte(v.Msg)), want)
	}
	// edwards25519_XMD:SHA-512_ELL2_RO_ (RFC 9380 J.5.1)
	edMsgs := []string{"", "abc", "abcdef0123456789",
		"q128_" + strings.Repeat("q", 128), "a512_" + strings.Repeat("a", 512)}
	edPts := [][2]string{
		{"3c3da6925a3c3c268448dcabb47ccde5439559d9599646a8260e47b1e4822fc6", "09a6c8561a0b22bef63124c588ce4c62ea83a3c899763af26d795302e115dc21"},
		{"608040b42285cc0d72cbb3985c6b04c935370c7361f4b7fbdb1ae7f8c1a8ecad", "1a8395b88338f22e435bbd301183e7f20a5f9de643f11882fb237f88268a5531"},
		{"6d7fabf47a2dc03fe7d47f7dddd21082c5fb8f86743cd020f3fb147d57161472", "53060a3d140e7fbcda641ed3cf42c88a75411e648a1add71217f70ea8ec561a6"},
		{"5fb0b92acedd16f3bcb0ef83f5c7b7a9466b5f1e0d8d217421878ea3686f8524", "2eca15e355fcfa39d2982f67ddb0eea138e2994f5956ed37b7f72eea5e89d2f7"},
		{"0efcfde5898a839b00997fbe40d2ebe950bc81181afbd5cd6b9618aa336c1e8c", "6dc2fc04f266c5c27f236a80b14f92ccd051ef1ff027f26a07f8c0f327d8f995"},
	}
	edDst := "QUUX-V01-CS02-with-edwards25519_XMD:SHA-512_ELL2_RO_"
	ed := edwards25519.NewBlakeSHA256Ed25519()
	for i, m := range edMsgs {
		x, y := hexInt(edPts[i][0]), hexInt(edPts[i][1])
		enc := make([]byte, 32)
		y.FillBytes(enc)
		enc = reverse(enc)
		if x.Bit(0) == 1 {
			enc[31] |= 0x80
		}
		p := ed.Point().(interface {
			Hash(m []byte, dst string) kyber.Point
		}).Hash([]byte(m), edDst)
		check("ed25519", "edwards25519_XMD:SHA-512_ELL2_RO_", m, p, enc)
	}
	res.AddTraces(len(g1.Vectors)*3 + len(g2.Vectors)*3 + len(edMsgs))
	res.Sample(map[string]any{"suite": g1.Ciphersuite, "msg": g1.Vectors[1].Msg, "P.x": g1.Vectors[1].P.X})
	return nil
}

// ---- independent RFC 9380 edwards25519_XMD:SHA-512_ELL2_RO_ (math/big), validated against the RFC's
// vectors at start-up and then used as the oracle for tags and messages of other lengths ----

func expandXMD512(msg, dst []byte, n int) []byte {
	if len(dst) > 255 {
		h := sha512.Sum512(append([]byte("H2C-OVERSIZE-DST-"), dst...))
		dst = h[:]
	}
	ell := (n + 63) / 64
	dstP := append(append([]byte{}, dst...), byte(len(dst)))
	mp := make([]byte, 128)
	mp = append(mp, msg...)
	mp = append(mp, byte(n>>8), byte(n), 0)
	mp = append(mp, dstP...)
	b0 := sha512.Sum512(mp)
	b1 := sha512.Sum512(append(append(append([]byte{}, b0[:]...), 1), dstP...))
	out := append([]byte{}, b1[:]...)
	prev := b1
	for i := 2; i <= ell; i++ {
		var x [64]byte
		for k := range x {
			x[k] = b0[k] ^ prev[k]
		}
		prev = sha512.Sum512(append(append(append([]byte{}, x[:]...), byte(i)), dstP...))
		out = append(out, prev[:]...)
	}
	return out[:n]
}

func refH2CEd25519(msg, dst []byte) []byte {
	e := newEdRef()
	p := e.p
	mod := func(x *big.Int) *big.Int { return x.Mod(x, p) }
	J := big.NewInt(486662)
	uni := expandXMD512(msg, dst, 96)
	c1 := new(big.Int).ModSqrt(mod(big.NewInt(-486664)), p)
	if c1.Bit(0) == 1 {
		c1.Sub(p, c1)
	}
	mapOne := func(u *big.Int) refPoint {
		// elligator 2 on curve25519 (K = 1, Z = 2)
		t := mod(new(big.Int).Mul(u, u))
		t = mod(t.Lsh(t, 1))
		t.Add(t, big.NewInt(1))
		x1 := new(big.Int)
		if mod(t).Sign() != 0 {
			x1 = mod(new(big.Int).Mul(new(big.Int).Neg(J), new(big.Int).ModInverse(t, p)))
		}
		if x1.Sign() == 0 {
			x1 = mod(new(big.Int).Neg(J))
		}
		g := func(x *big.Int) *big.Int {
			x2 := mod(new(big.Int).Mul(x, x))
			x3 := mod(new(big.Int).Mul(x2, x))
			r := new(big.Int).Add(x3, new(big.Int).Mul(J, x2))
			return mod(r.Add(r, x))
		}
		gx1 := g(x1)
		var x, y *big.Int
		if gx1.Sign() == 0 || big.Jacobi(gx1, p) == 1 {
			x, y = x1, new(big.Int).ModSqrt(gx1, p)
			if y.Bit(0) != 1 {
				y = mod(new(big.Int).Neg(y))
			}
		} else {
			x = mod(new(big.Int).Sub(new(big.Int).Neg(x1), J))
			y = new(big.Int).ModSqrt(g(x), p)
			if y.Bit(0) != 0 {
				y = mod(new(big.Int).Neg(y))
			}
		}
		// rational map to edwards25519
		xp1 := mod(new(big.Int).Add(x, big.NewInt(1)))
		if y.Sign() == 0 || xp1.Sign() == 0 {
			return e.Zero()
		}
		v := mod(new(big.Int).Mul(mod(new(big.Int).Mul(c1, x)), new(big.Int).ModInverse(y, p)))
		w := mod(new(big.Int).Mul(mod(new(big.Int).Sub(x, big.NewInt(1))), new(big.Int).ModInverse(xp1, p)))
		return refPoint{X: v, Y: w}
	}
	u0 := new(big.Int).Mod(new(big.Int).SetBytes(uni[:48]), p)
	u1 := new(big.Int).Mod(new(big.Int).SetBytes(uni[48:]), p)
	q := e.Add(mapOne(u0), mapOne(u1))
	for i := 0; i < 3; i++ {
		q = e.Add(q, q)
	}
	return e.Encode(q)
}

// RunH2CLengths compares kyber's edwards25519 Hash(m, dst) with the reference for tags and messages of
// the lengths the property names (tags of 255 and 256 bytes straddle the RFC's oversize-tag rule).
func RunH2CLengths(cfg Config, res *core.Result) {
	edMsgs := []string{"", "abc", "abcdef0123456789", "q128_" + strings.Repeat("q", 128), "a512_" + strings.Repeat("a", 512)}
	want := []string{"3c3da6925a3c3c268448dcabb47ccde5439559d9599646a8260e47b1e4822fc6", "608040b42285cc0d72cbb3985c6b04c935370c7361f4b7fbdb1ae7f8c1a8ecad",
		"6d7fabf47a2dc03fe7d47f7dddd21082c5fb8f86743cd020f3fb147d57161472", "5fb0b92acedd16f3bcb0ef83f5c7b7a9466b5f1e0d8d217421878ea3686f8524",
		"0efcfde5898a839b00997fbe40d2ebe950bc81181afbd5cd6b9618aa336c1e8c"}
	edDst := "QUUX-V01-CS02-with-edwards25519_XMD:SHA-512_ELL2_RO_"
	er := newEdRef()
	for i, m := range edMsgs { // self-validation of the reference: x coordinate of the RFC vectors
		pt, ok := er.Decode(refH2CEd25519([]byte(m), []byte(edDst)))
		if !ok || pt.X.Cmp(hexInt(want[i])) != 0 {
			res.Skip("h2c-reference-does-not-reproduce-rfc-vectors")
			return
		}
	}
	ed := edwards25519.NewBlakeSHA256Ed25519()
	rng := core.Rng(cfg.Seed, "h2clen")
	for _, dl := range []int{1, 2, 16, 63, 64, 65, 128, 254, 255, 256, 257, 300} {
		for _, ml := range []int{0, 1, 63, 64, 65, 300} {
			dst := make([]byte, dl)
			msg := make([]byte, ml)
			rng.Read(dst)
			rng.Read(msg)
			for k := range dst { // tags are strings in the API: keep them valid single-byte text
				dst[k] = 'A' + dst[k]%26
			}
			p := ed.Point().(interface {
				Hash(m []byte, dst string) kyber.Point
			}).Hash(msg, string(dst))
			got, _ := p.MarshalBinary()
			exp := refH2CEd25519(msg, dst)
			res.Eval(fmt.Sprintf("h2clen|%d|%d", dl, ml))
			if !bytes.Equal(got, exp) {
				res.Violate(fmt.Sprintf("%s/ed25519/h2c-reference/dst-len=%d", cfg.Prop, dl),
					fmt.Sprintf("edwards25519 Hash(m, dst) differs from RFC 9380 for a tag of %d bytes", dl),
					map[string]any{"dst": string(dst), "msg": hex.EncodeToString(msg), "want": hex.EncodeToString(exp), "got": hex.EncodeToString(got)})
			}
		}
	}
}
