//go:build !constantTime

package alg

import (
	"bytes"
	"encoding/hex"
	"encoding/json"
	"fmt"
	"math/big"
	"runtime"

	"go.dedis.ch/kyber/v4"

	"verifharness/internal/core"
	"verifharness/internal/groups"
)

// ---- replay of spec/KyberPairing.tla behaviours (C06) ----

type PStepRec struct {
	Op string              `json:"op"`
	D  string              `json:"d"`
	X  string              `json:"x"`
	Y  string              `json:"y"`
	X2 string              `json:"x2"`
	Y2 string              `json:"y2"`
	V  json.RawMessage     `json:"v"`
	S  map[string]AScalar  `json:"s"`
	A  map[string]APoint   `json:"a"`
	B  map[string]APoint   `json:"b"`
}

type PBehaviour []PStepRec

type pairEnv struct {
	key    string
	e1, e2 *Env // G1, G2 environments sharing the binding
	gt     *groups.Info
	atoms  map[string]kyber.Point // BB BH HB HH
	canonT map[string]*canonEntry
	res    *core.Result
	prop   string
}

func suiteGroups(key string) (g1, g2, gt *groups.Info) {
	for _, g := range groups.All() {
		if g.SuiteKey != key {
			continue
		}
		switch g.Sort {
		case "G1":
			g1 = g
		case "G2":
			g2 = g
		case "GT":
			gt = g
		}
	}
	// one suite object for all three
	if g1 != nil && g2 != nil && gt != nil {
		g2.Suite, gt.Suite = g1.Suite, g1.Suite
	}
	return
}

func newPairEnv(key string, b Binding, res *core.Result, prop string) (*pairEnv, error) {
	g1, g2, gt := suiteGroups(key)
	if g1 == nil || g2 == nil || gt == nil {
		return nil, fmt.Errorf("suite %s incomplete", key)
	}
	e1, err := NewEnv(g1, b, res, prop)
	if err != nil {
		return nil, err
	}
	b2 := b
	b2.HSeed = b.HSeed + "-g2"
	e2, err := NewEnv(g2, b2, res, prop)
	if err != nil {
		return nil, err
	}
	pe := &pairEnv{key: key, e1: e1, e2: e2, gt: gt, atoms: map[string]kyber.Point{}, canonT: map[string]*canonEntry{}, res: res, prop: prop}
	s := g1.Suite
	pe.atoms["BB"] = s.Pair(e1.B.Clone(), e2.B.Clone())
	pe.atoms["BH"] = s.Pair(e1.B.Clone(), e2.H.Clone())
	pe.atoms["HB"] = s.Pair(e1.H.Clone(), e2.B.Clone())
	pe.atoms["HH"] = s.Pair(e1.H.Clone(), e2.H.Clone())
	return pe, nil
}

func (pe *pairEnv) refMulT(k *big.Int, P kyber.Point) kyber.Point {
	acc := pe.gt.Group.Point().Null()
	for i := k.BitLen() - 1; i >= 0; i-- {
		acc = pe.gt.Group.Point().Add(acc, acc)
		if k.Bit(i) == 1 {
			acc = pe.gt.Group.Point().Add(acc, P)
		}
	}
	return acc
}

func (pe *pairEnv) canonGT(v APoint) (*canonEntry, bool) {
	key := ""
	acc := pe.gt.Group.Point().Null()
	for _, at := range []string{"BB", "BH", "HB", "HH"} {
		r, ok := pe.e1.Eval(v[at])
		if !ok {
			return nil, false
		}
		key += r.Text(62) + "|"
		if r.Sign() != 0 {
			acc = pe.gt.Group.Point().Add(acc, pe.refMulT(r, pe.atoms[at]))
		}
	}
	if c, ok := pe.canonT[key]; ok {
		return c, true
	}
	buf, err := acc.MarshalBinary()
	if err != nil {
		buf = []byte("marshal-error:" + err.Error())
	}
	c := &canonEntry{P: acc, Bytes: buf}
	pe.canonT[key] = c
	return c, true
}

func (pe *pairEnv) vkey(op, kind string) string {
	return fmt.Sprintf("%s/%s/%s/%s", pe.prop, pe.key, op, kind)
}

func (pe *pairEnv) replay(bh PBehaviour, id string) bool {
	if len(bh) != 8 || bh[0].Op != "init" {
		return false
	}
	suite := pe.e1.G.Suite
	S := map[string]kyber.Scalar{}
	absS := map[string]AScalar{}
	for n, av := range bh[0].S {
		r, ok := pe.e1.Eval(av)
		if !ok {
			pe.res.Skip("inadmissible-binding")
			return false
		}
		s := pe.e1.G.Group.Scalar()
		if err := s.UnmarshalBinary(EncodeScalar(pe.e1.G, r)); err != nil {
			pe.res.Skip("scalar-init-error")
			return false
		}
		S[n], absS[n] = s, av
	}
	A := map[string]kyber.Point{}
	B := map[string]kyber.Point{}
	T := map[string]kyber.Point{"t1": pe.gt.Group.Point().Null(), "t2": pe.gt.Group.Point().Null()}
	exp := map[string][]byte{}
	for n, av := range bh[0].A {
		c, ok := pe.e1.Canon(av)
		if !ok {
			pe.res.Skip("inadmissible-binding")
			return false
		}
		A[n], exp[n] = c.P.Clone(), c.Bytes
	}
	for n, av := range bh[0].B {
		c, ok := pe.e2.Canon(av)
		if !ok {
			pe.res.Skip("inadmissible-binding")
			return false
		}
		B[n], exp[n] = c.P.Clone(), c.Bytes
	}
	detail := func(step int, extra map[string]any) map[string]any {
		d := map[string]any{"suite": pe.key, "group": pe.key, "binding": pe.e1.Bind.Describe(), "behaviour": bh, "step": step}
		for k, v := range extra {
			d[k] = v
		}
		return d
	}
	for i, st := range bh[1:] {
		idx := i + 1
		var want *canonEntry
		var dstReg map[string]kyber.Point
		ok := true
		switch st.Op {
		case "a.skip", "b.skip", "t.skip":
			continue
		case "a.add", "a.neg", "a.sub", "a.mul", "b.add", "b.neg", "b.sub", "b.mul":
			env, R := pe.e1, A
			if st.Op[0] == 'b' {
				env, R = pe.e2, B
			}
			var av APoint
			_ = json.Unmarshal(st.V, &av)
			want, ok = env.Canon(av)
			if !ok {
				pe.res.Skip("inadmissible-binding")
				return false
			}
			dstReg = R
			msg, stack, pan := core.Try(func() {
				switch st.Op[2:] {
				case "add":
					R[st.D].Add(R[st.X], R[st.Y])
				case "neg":
					R[st.D].Neg(R[st.X])
				case "sub":
					R[st.D].Sub(R[st.X], R[st.Y])
				case "mul":
					if st.Y == "nil" {
						R[st.D].Mul(S[st.X], nil)
					} else {
						R[st.D].Mul(S[st.X], R[st.Y])
					}
				}
			})
			if pan {
				pe.res.Violate(pe.vkey(st.Op, "panic"), fmt.Sprintf("%s panicked on suite %s: %s", st.Op, pe.key, msg), detail(idx, map[string]any{"stack": stack}))
				return false
			}
		case "pair", "t.mul", "t.add", "t.sub", "t.neg":
			var av APoint
			_ = json.Unmarshal(st.V, &av)
			want, ok = pe.canonGT(av)
			if !ok {
				pe.res.Skip("inadmissible-binding")
				return false
			}
			dstReg = T
			msg, stack, pan := core.Try(func() {
				switch st.Op {
				case "pair":
					// operands are handed over as they are (non-normalised); Pair must not change them
					T[st.D] = suite.Pair(A[st.X], B[st.Y])
				case "t.mul":
					T[st.D].Mul(S[st.X], T[st.Y])
				case "t.add":
					T[st.D].Add(T[st.X], T[st.Y])
				case "t.sub":
					T[st.D].Sub(T[st.X], T[st.Y])
				case "t.neg":
					T[st.D].Neg(T[st.X])
				}
			})
			if pan {
				pe.res.Violate(pe.vkey(st.Op, "panic"), fmt.Sprintf("%s panicked on suite %s: %s", st.Op, pe.key, msg), detail(idx, map[string]any{"stack": stack}))
				return false
			}
		case "observe":
			var obs struct {
				Eq     bool `json:"eq"`
				T1Zero bool `json:"t1zero"`
			}
			_ = json.Unmarshal(st.V, &obs)
			// eq is a statement about abstract values; evaluate under the binding (û may collapse distinct forms)
			wantEq := bytes.Equal(exp["t1"], exp["t2"])
			if obs.Eq && !wantEq {
				pe.res.Violate(pe.vkey("observe", "model-eq-not-concrete"), "equal abstract GT values have different canonical encodings", detail(idx, nil))
				return false
			}
			gotEq := T["t1"].Equal(T["t2"])
			if gotEq != wantEq {
				pe.res.Violate(pe.vkey("observe", "gt-equal"), fmt.Sprintf("GT Equal on %s returned %v for values whose pairing forms are %s", pe.key, gotEq, map[bool]string{true: "equal", false: "different"}[wantEq]), detail(idx, nil))
				return false
			}
			isNull := T["t1"].Equal(pe.gt.Group.Point().Null())
			nullBytes, _ := pe.gt.Group.Point().Null().MarshalBinary()
			if isNull != bytes.Equal(exp["t1"], nullBytes) {
				pe.res.Violate(pe.vkey("observe", "identity"), "pairing result identity status disagrees with the bilinear form", detail(idx, nil))
				return false
			}
			if st.X2 != "" {
				var got bool
				msg, stack, pan := core.Try(func() { got = suite.ValidatePairing(A[st.X], B[st.Y], A[st.X2], B[st.Y2]) })
				if pan {
					pe.res.Violate(pe.vkey("validate", "panic"), "ValidatePairing panicked: "+msg, detail(idx, map[string]any{"stack": stack}))
					return false
				}
				if got != wantEq {
					pe.res.Violate(pe.vkey("validate", fmt.Sprintf("returned-%v", got)), fmt.Sprintf("ValidatePairing on %s returned %v although Pair(p1,p2) %s Pair(i1,i2)", pe.key, got, map[bool]string{true: "==", false: "!="}[wantEq]), detail(idx, nil))
					return false
				}
			}
			pe.res.Eval(pe.key + "|" + pe.e1.Bind.Name + "|" + id + "|obs")
			continue
		default:
			panic("unknown op " + st.Op)
		}
		exp[st.D] = want.Bytes
		pe.res.Eval(pe.key + "|" + pe.e1.Bind.Name + "|" + id + "|" + fmt.Sprint(idx))
		// destination and every other register
		all := map[string]kyber.Point{}
		for n, p := range A {
			all[n] = p
		}
		for n, p := range B {
			all[n] = p
		}
		for n, p := range T {
			all[n] = p
		}
		for n, p := range all {
			want, has := exp[n]
			if !has {
				continue
			}
			got := snapP(p, false)
			if !bytes.Equal(got, want) {
				kind := "operand-changed"
				what := fmt.Sprintf("%s on suite %s changed register %s", st.Op, pe.key, n)
				if n == st.D {
					kind = "result"
					what = fmt.Sprintf("%s on suite %s: result differs from the bilinear form evaluated on the canonical route", st.Op, pe.key)
				}
				pe.res.Violate(pe.vkey(st.Op, kind), what, detail(idx, map[string]any{"reg": n, "want": hex.EncodeToString(want), "got": hex.EncodeToString(got)}))
				return false
			}
		}
		_ = dstReg
	}
	return true
}

// RunPairing replays KyberPairing behaviours on the five pairing suites.
func RunPairing(cfg Config, res *core.Result) error {
	var bhs []PBehaviour
	err := core.ReadLines(cfg.In, func(line []byte) error {
		var b PBehaviour
		if err := json.Unmarshal(line, &b); err != nil {
			return err
		}
		bhs = append(bhs, b)
		return nil
	})
	if err != nil {
		return err
	}
	if len(bhs) == 0 {
		return fmt.Errorf("no behaviours")
	}
	res.AddTraces(len(bhs))
	suites := []string{"bn256", "bn254", "kilic", "circl", "gnark"}
	type tk struct {
		suite string
		bind  int
		shard int
	}
	const shards = 4
	var tasks []tk
	for _, s := range suites {
		for b := 0; b < cfg.Bindings; b++ {
			for sh := 0; sh < shards; sh++ {
				tasks = append(tasks, tk{s, b, sh})
			}
		}
	}
	replayed := make([]int, len(tasks))
	core.Parallel(len(tasks), runtime.NumCPU(), func(i int) {
		t := tasks[i]
		g1, _, _ := suiteGroups(t.suite)
		binds := Bindings(g1, cfg.Seed, cfg.Bindings)
		pe, err := newPairEnv(t.suite, binds[t.bind], res, cfg.Prop)
		if err != nil {
			res.Skip("env:" + err.Error())
			return
		}
		// non-degeneracy of the generators
		if t.shard == 0 && pe.atoms["BB"].Equal(pe.gt.Group.Point().Null()) {
			res.Violate(pe.vkey("pair", "degenerate"), "pairing of the two generators is the identity", nil)
		}
		var keep uint64 = ^uint64(0)
		if cfg.Max > 0 && cfg.Max < len(bhs) {
			keep = uint64(float64(^uint64(0)) * float64(cfg.Max) / float64(len(bhs)))
		}
		for j, bh := range bhs {
			if j%shards != t.shard {
				continue
			}
			id := fmt.Sprint(j)
			if core.Hash64(fmt.Sprint(cfg.Seed), t.suite, fmt.Sprint(t.bind), id) > keep {
				continue
			}
			if pe.replay(bh, id) {
				replayed[i]++
				if j%499 == 0 {
					res.Sample(map[string]any{"suite": t.suite, "binding": binds[t.bind].Describe(), "behaviour": bh})
				}
			}
		}
	})
	per := map[string]int{}
	total := 0
	for i, t := range tasks {
		per[t.suite] += replayed[i]
		total += replayed[i]
	}
	res.SetExtra("behaviours_replayed", total)
	res.SetExtra("behaviours_replayed_per_suite", per)
	res.SetExtra("behaviours_generated", len(bhs))
	if len(res.Samples) == 0 {
		res.Sample(map[string]any{"behaviour": bhs[0]})
	}
	return nil
}
