package alg

import (
	"encoding/json"
	"fmt"
	"runtime"
	"strings"

	"verifharness/internal/core"
	"verifharness/internal/groups"
)

// Config of one replay run.
type Config struct {
	Prop      string
	In        string
	Seed      int64
	Bindings  int    // bindings per group
	Max       int    // behaviours per (group, binding); 0 = all
	MaxSlow   int    // same for GT-like groups
	ScalarsOnly bool // one group per scalar implementation
	Groups    string // comma list filter (empty = all)
	CodecAll  bool   // binding i uses codec path i%3 (C03)
	LastOp    string // pickembed: only behaviours ending in this op
	Adapters  bool   // also run the suite-as-group adapters
	FirstUse  int    // variant of the first-use probe run before anything else (see firstuse.go); <0 = seed%4
}

func Load(path string) ([]Behaviour, [][]byte, error) {
	var out []Behaviour
	var raw [][]byte
	err := core.ReadLines(path, func(line []byte) error {
		var b Behaviour
		if err := json.Unmarshal(line, &b); err != nil {
			return fmt.Errorf("bad behaviour line: %w", err)
		}
		out = append(out, b)
		raw = append(raw, line)
		return nil
	})
	return out, raw, err
}

type task struct {
	group string
	bind  int
}

func Run(cfg Config, res *core.Result) error {
	var bhs []Behaviour
	if cfg.In != "" { // without an input file only the first-use probe runs (replay of a first-use violation)
		var err error
		bhs, _, err = Load(cfg.In)
		if err != nil {
			return err
		}
		if len(bhs) == 0 {
			return fmt.Errorf("no behaviours in %s", cfg.In)
		}
	}
	res.AddTraces(len(bhs))
	var names []string
	seenTy := map[string]bool{}
	filter := map[string]bool{}
	for _, n := range strings.Split(cfg.Groups, ",") {
		if n != "" {
			filter[n] = true
		}
	}
	all := groups.All()
	if cfg.Adapters {
		all = append(all, groups.Adapters()...)
	}
	for _, g := range all {
		if len(filter) > 0 && !filter[g.Name] {
			continue
		}
		if cfg.ScalarsOnly {
			if seenTy[g.ScalarTy] {
				continue
			}
			seenTy[g.ScalarTy] = true
		}
		names = append(names, g.Name)
	}
	fu := cfg.FirstUse
	if fu < 0 {
		fu = int(cfg.Seed % 4)
	}
	var probe []*groups.Info
	for _, n := range names {
		probe = append(probe, groups.ByName(n))
	}
	FirstUse(probe, fu, res, cfg.Prop)
	if cfg.In == "" {
		res.AddTraces(1)
		res.Sample(map[string]any{"firstuse": fu, "groups": names})
		return nil
	}
	var tasks []task
	for _, n := range names {
		for b := 0; b < cfg.Bindings; b++ {
			tasks = append(tasks, task{n, b})
		}
	}
	replayed := make([]int, len(tasks))
	core.Parallel(len(tasks), runtime.NumCPU(), func(i int) {
		t := tasks[i]
		g := groups.ByName(t.group)
		binds := Bindings(g, cfg.Seed, cfg.Bindings)
		if cfg.CodecAll {
			binds[t.bind].Codec = t.bind % 3
		}
		env, err := NewEnv(g, binds[t.bind], res, cfg.Prop)
		if err != nil {
			res.Skip("env:" + err.Error())
			return
		}
		max := cfg.Max
		if g.Slow {
			max = cfg.MaxSlow
		}
		// deterministic sub-sample: keep behaviours whose hash falls below the quota
		var keep uint64 = ^uint64(0)
		if max > 0 && max < len(bhs) {
			keep = uint64(float64(^uint64(0)) * float64(max) / float64(len(bhs)))
		}
		for j, bh := range bhs {
			id := fmt.Sprint(j)
			if core.Hash64(fmt.Sprint(cfg.Seed), t.group, fmt.Sprint(t.bind), id) > keep {
				continue
			}
			if env.Replay(bh, id) > 0 {
				replayed[i]++
				if j%997 == 0 {
					res.Sample(map[string]any{"group": g.Name, "binding": binds[t.bind].Describe(), "behaviour": bh})
				}
			}
		}
	})
	total := 0
	per := map[string]int{}
	for i, t := range tasks {
		total += replayed[i]
		per[t.group] += replayed[i]
	}
	res.SetExtra("behaviours_replayed", total)
	res.SetExtra("behaviours_replayed_per_group", per)
	res.SetExtra("behaviours_generated", len(bhs))
	if len(res.Samples) == 0 {
		res.Sample(map[string]any{"behaviour": bhs[0]})
	}
	return nil
}
