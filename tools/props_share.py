"""Family `share`: C07 (Shamir, spec/Shamir.tla) and C12 (DSS, spec/DSS.tla + DSSTrace.tla)."""
import concurrent.futures
import copy
import json
import os
import random

from vlib import Broken, cfg, log

JAVA = "-Xmx3g -XX:ParallelGCThreads=4"   # small states: a small heap avoids page-fault storms on the shared box

TINY = {11: (23, 11, 4), 5: (11, 5, 4), 23: (47, 23, 4)}   # order -> (P, Q, G) of ResidueGroup.SetParams(P,Q,(P-1)/Q,G)
ALL_MUTS = ["nil", "nilv", "swap", "drop", "append"]


def shamir_consts(mode, q=11, nset=(3,), tmax=3, coefs=None, bases=(0,), start="empty", muts=("append",), order="any",
                  surplus=1, maxdup=1, maxnil=2, maxnilv=1, rich=99, coefs2=(1,), order2="any", maxnil2=1,
                  with_check=False, L=40, emit_all=True, obs_all=False):
    P, Q, G = TINY[q]
    return {"Mode": mode, "P": P, "Q": Q, "G": G, "NSet": list(nset), "TMax": tmax,
            "CoefVals": list(coefs if coefs is not None else range(Q)), "Bases": list(bases),
            "Start": start, "Muts": list(muts), "Order": order, "Surplus": surplus, "MaxDup": maxdup,
            "MaxNil": maxnil, "MaxNilV": maxnilv, "Rich": rich, "CoefVals2": list(coefs2), "Order2": order2,
            "MaxNil2": maxnil2, "WithCheck": with_check, "L": L, "EmitAll": emit_all, "ObsAll": obs_all}


SHAMIR_INV = ["TypeOK", "PolySound", "CommitBinds", "RoutesAgree", "ArithCommutes", "Emit"]


class Shadow:
    """a private view of ctx for one job thread: own coverage / violation lists, merged afterwards in job order"""

    def __init__(self, ctx):
        self.sh = copy.copy(ctx)
        self.sh.cov = {"states": 0, "transitions": 0, "traces_validated_against_impl": 0, "samples": [],
                       "evaluations": 0, "distinct_nontrivial": 0, "tlc_runs": [], "skipped": {}, "extra": {}}
        self.sh.violations, self.sh.assumptions, self.sh.rules = [], [], []

    def merge_into(self, ctx):
        c, d = ctx.cov, self.sh.cov
        for k in ("states", "transitions", "traces_validated_against_impl", "evaluations", "distinct_nontrivial"):
            c[k] += d[k]
        c["tlc_runs"] += d["tlc_runs"]
        for smp in d["samples"]:
            if len(c["samples"]) < 4:
                c["samples"].append(smp)
        for k, v in d["skipped"].items():
            c["skipped"][k] = c["skipped"].get(k, 0) + v
        for k, v in d["extra"].items():
            c["extra"].setdefault(k, []).extend(v)
        ctx.violations += self.sh.violations
        ctx.rules += [r for r in self.sh.rules if r not in ctx.rules]


def run_jobs(ctx, jobs, parallel=3):
    """jobs: list of callables f(shadow_ctx); run `parallel` at a time, merge results in list order"""
    shadows = [Shadow(ctx) for _ in jobs]
    errs = [None] * len(jobs)

    def one(i):
        try:
            jobs[i](shadows[i].sh)
        except BaseException as e:  # noqa
            errs[i] = e

    with concurrent.futures.ThreadPoolExecutor(max_workers=parallel) as ex:
        list(ex.map(one, range(len(jobs))))
    for shd in shadows:
        shd.merge_into(ctx)
    for e in errs:
        if e is not None:
            raise e


TLC_WORKERS = max(2, min(6, (os.cpu_count() or 4) // 3))


def shamir_tlc(ctx, name, consts, simulate=None, depth=None):
    """one TLC run = exhaustive model check of the C07 invariants on this universe AND generation of the behaviours"""
    out = os.path.join(ctx.tmp, name + ".ndjson")
    run = ctx.tlc("Shamir", cfg(constants=consts, invariants=SHAMIR_INV, view=None if simulate else "View"), name=name,
                  collect=out, simulate=simulate, depth=depth, workers=(1 if simulate else TLC_WORKERS), java_opts=JAVA)
    if run["behaviours"] == 0:
        raise Broken("generator %s produced no behaviours" % name)
    return out


def exact(name, q, **kw):
    def job(ctx):
        k = dict(kw)
        mode = k.pop("mode", "exact")
        sim = k.pop("simulate", None)
        depth = k.pop("depth", None)
        bh = shamir_tlc(ctx, name, shamir_consts(mode, q=q, **k), simulate=sim, depth=depth)
        P, Q, G = TINY[q]
        ctx.run_vh("shamir-exact", ["-in", bh, "-P", P, "-Q", Q, "-G", G], binary=ctx.vh_share)
        os.remove(bh)
    return job


def lifted(name, max_fast, max_slow, **kw):
    def job(ctx):
        k = dict(kw)
        sim = k.pop("simulate", None)
        depth = k.pop("depth", None)
        bh = shamir_tlc(ctx, name, shamir_consts("shape", **k), simulate=sim, depth=depth)
        ctx.run_vh("shamir-lifted", ["-in", bh, "-max", max_fast, "-maxslow", max_slow], binary=ctx.vh_share)
        os.remove(bh)
    return job


def c07(ctx):
    q = ctx.quick
    ctx.vh_share = ctx.build(pkg="./cmd/vh-share")
    nmax = 12 if q else 24
    jobs = [
        # ---- (i) exact, on kyber's own generic code over the tiny groups -------------------------------
        # Z_11. n <= 3: every share slice (any order, nil pointers, nil values, one duplicate, one surplus entry);
        # n = 4, 5: every subset in every order with a nil pointer.  Check(i,v) for all i, v on every polynomial dealt.
        exact("C07_z11_slices", 11, nset=(1, 2, 3, 4, 5), tmax=3 if q else 4, coefs=[1, 10] if q else [0, 1, 10],
              bases=(3,) if q else (0, 3), rich=3, coefs2=[10] if q else [1, 10], maxnil2=1 if q else 2, with_check=True),
        # Z_11: EVERY polynomial of degree < 3, every subset of the shares in index order, all (i,v) for Check
        exact("C07_z11_allpolys", 11, nset=(4,) if q else (5,), tmax=3, bases=(7,) if q else (0, 7),
              order="increasing", surplus=0, maxdup=0, maxnil=0, maxnilv=0),
        # Z_5: the whole universe - every polynomial, every base, every slice
        exact("C07_z5_all", 5, nset=(1, 2, 3) if q else (1, 2, 3, 4), tmax=3, bases=(2,) if q else (0, 2),
              maxnil=1, maxnilv=0 if q else 1, rich=3, coefs2=tuple(range(5)), maxnil2=1, with_check=True),
        # every exported route to a PriPoly / PubPoly (CoefficientsToPriPoly, NewPriPoly, RecoverPriPoly, Add, Mul; Commit,
        # NewPubPoly, RecoverPubPoly, PubPoly.Add) x nil, standard and non-standard base: Check(i,v) for all i, v, Eval,
        # Shares, Commit, Info, Equal on each object
        exact("C07_z11_routes", 11, mode="check", nset=(4,), tmax=3, coefs=[0, 1, 10], bases=(0, 1, 3), start="honest", muts=()),
        # Add / Mul commute with evaluation and commitment (all pairs of polynomials)
        exact("C07_z5_arith", 5, mode="arith", nset=(3,), tmax=2 if q else 3, bases=(0, 3), start="honest", muts=()),
        # random walks over all slice edits, n up to 7, order-23 group
        exact("C07_z23_walk", 23, nset=(6,) if q else (6, 7), tmax=3 if q else 4, coefs=[0, 1, 22] if q else [0, 1, 7, 13, 22], bases=(0, 5), start="honest", muts=ALL_MUTS,
              surplus=2, maxdup=2, maxnil=3, maxnilv=2, L=9, emit_all=False, obs_all=True,
              simulate="num=%d" % (150 if q else 1200), depth=9),
        # ---- (ii) lifted: TLC supplies slice shape + verdict, the real groups supply the polynomial --------
        # n <= 3: every slice; n = 4..7: every nil pattern of the positional slice (= every subset), all t
        lifted("C07_shape_bfs", 400 if q else 0, 40 if q else 500, nset=tuple(range(1, 8)), tmax=7, rich=3,
               order2="positional", maxnil2=7),
        lifted("C07_shape_walk", 0 if q else 600, 15 if q else 120, nset=tuple(range(2, nmax + 1)), tmax=nmax,
               start="honest", muts=ALL_MUTS, surplus=2, maxdup=2, maxnil=nmax, maxnilv=2, L=8, emit_all=False, obs_all=True,
               simulate="num=%d" % (120 if q else 800), depth=8),
    ]
    if not q:
        jobs.insert(4, exact("C07_z11_arith", 11, mode="arith", nset=(3,), tmax=2, bases=(0, 4), start="honest", muts=()))
        # Check(i, v) for all i, v on EVERY polynomial of degree < 3 over Z_11 and EVERY base point
        jobs.insert(2, exact("C07_z11_check", 11, mode="check", nset=(5,), tmax=3, bases=tuple(range(11)), start="honest", muts=()))
    run_jobs(ctx, jobs, parallel=3)
    return ctx.finish(
        "model_checking",
        "case = (polynomial, base point, n, t, share slice) reached by TLC; TLC checks on every dealt polynomial that Lagrange "
        "interpolation through any t-subset (and any larger subset) of the n shares gives the dealer's secret / commitment / "
        "polynomial and that Check(i,v) <=> v=f(i+1) for all i,v (objects built through every exported route: CoefficientsToPriPoly, "
        "NewPriPoly, RecoverPriPoly, Add, Mul / Commit, NewPubPoly, RecoverPubPoly, PubPoly.Add; nil, standard and other bases), and ships per slice the verdict (>= t distinct usable shares "
        "or refused) with the expected values; (i) exact: replayed on share/poly.go over p256.ResidueGroup(23,11,2,4), (11,5,2,4), "
        "(47,23,2,4), every returned scalar and point compared numerically; (ii) lifted: slice shapes for n<=12 (thorough 24) on "
        "Ed25519, P-256, QR512, BN256 G1/G2, BLS12-381 (kilic G1, circl G2, gnark G1) with random and zero secrets, standard and "
        "picked base; distinct = (group, function, polynomial/variant, slice)",
        ["exact replay: the tiny residue groups are instances of kyber's own generic code; share/poly.go is generic in kyber.Group, "
         "so index-pattern errors show there identically",
         "lifted replay: oracle is equality with the dealer's polynomial read back from the library (Coefficients, Info); "
         "the value of another share is assumed to differ from a share's own value when t >= 2 (probability 1 - 1/q)",
         "n < q is required for distinct non-zero evaluation points (ASSUME in the spec); shares with wrong values are outside "
         "the property (only Check speaks about them)"],
        exhaustive=False)


# ---------------------------------------------------------------------------------------------------------
# C12: DSS

ALL_BAD = ["dup", "badvalue", "forged", "othersession", "othermsg", "badindex", "resign"]


ALL_MSGS = ["nil", "empty", "b1", "text", "b64", "b4096"]


def dss_consts(n, tset=None, maxbad=2, kinds=ALL_BAD, badfrom=None, joint=False, parts=(), focus=None, selfrecv=True, L=0,
               emit="none", msgs=("text",), gap=0):
    return {"N": n, "TSet": list(tset or range(1, n + 1)), "MaxBad": maxbad, "BadKinds": list(kinds),
            "BadFrom": list(badfrom if badfrom is not None else range(n)), "Joint": joint, "JointParts": list(parts),
            "FocusSet": list(focus if focus is not None else range(n)), "MsgSet": list(msgs), "Gap": gap, "SelfRecv": selfrecv, "L": L,
            "EmitMode": emit}


DSS_INV = ["TypeOK", "OnlyValidContribute", "NoSigBelowT", "AllSignaturesEqual"]


def dss_mc(name, n, parts, maxbad=2):
    def job(ctx):
        # all bad kinds lead to the same abstract post-state: one claimed signer suffices for the model check
        ctx.tlc("DSS", cfg(constants=dss_consts(n, maxbad=maxbad, joint=True, parts=parts, badfrom=(0,)), invariants=DSS_INV,
                           properties=["RejectIsNoop"]), name=name, workers=TLC_WORKERS, java_opts=JAVA)
    return job


def dss_gen(name, n, maxper, mode="paths", maxbad=1, badfrom=None, simulate=None, L=40, tset=None, focus=None,
            msgs=("text",), kinds=ALL_BAD, gap=0):
    """behaviours of ONE participant's object: mode paths = every maximal behaviour, tour = transition tour, walk = simulate"""
    def job(ctx):
        out = os.path.join(ctx.tmp, name + ".ndjson")
        consts = dss_consts(n, tset=tset, maxbad=maxbad, badfrom=badfrom, focus=focus, L=L, msgs=msgs, kinds=kinds, gap=gap,
                            emit="none" if mode == "tour" else "done")
        if mode == "tour":
            consts["EmitMode"] = "tour"   # hist is recorded, nothing printed by Emit; EmitEdge prints prefix + edge
            c = cfg(constants=consts, invariants=DSS_INV[:3], view="View", action_constraint="EmitEdge")
        else:
            c = cfg(constants=consts, invariants=DSS_INV[:3] + ["Emit"])
        run = ctx.tlc("DSS", c, name=name, collect=out, simulate=simulate, depth=L if simulate else None,
                      workers=(1 if simulate else TLC_WORKERS), java_opts=JAVA)
        if run["behaviours"] == 0:
            raise Broken("generator %s produced no behaviours" % name)
        ctx.run_vh("dss", ["-in", out, "-max", maxper], binary=ctx.vh_share)
        os.remove(out)
    return job


TRACE_CFG = cfg(spec="TraceSpec", constants=dss_consts(7, maxbad=0, kinds=[], badfrom=[]), constraint="Mark",
                postcondition="TraceAccepted")


def trace_violation(ctx, origin, trace_file, at):
    lines = open(trace_file).read().splitlines()
    ev = json.loads(lines[at - 1]) if at and 0 < at <= len(lines) else {}
    start = at - 1
    while start > 0 and json.loads(lines[start]).get("ev") != "new":
        start -= 1
    kind = (ev.get("args") or {}).get("kind", "")
    ctx.violations.append({
        "key": "C12/trace:%s/%s%s/ret-%s/not-a-step-of-DSS" % (origin, ev.get("ev", "?"), (":" + kind) if kind else "", ev.get("ret", "?")),
        "what": "a recorded event of a real dss.DSS object is not explained by spec DSS (accept iff valid and new signer; "
                "held set; enough iff |held| >= t; signature iff enough)",
        "detail": {"trace_prefix": [json.loads(x) for x in lines[start:at]], "rejected_at": at, "origin": origin},
        "driver": "dss-record", "args": []})


def dss_traces(ctx):
    q = ctx.quick
    tr = os.path.join(ctx.tmp, "dss_traces.ndjson")
    ctx.run_vh("dss-record", ["-traces", tr, "-runs", 60 if q else 800], binary=ctx.vh_share)
    ndriver = len(open(tr).read().splitlines())
    # the repository's own tests of sign/dss, run with the verif hooks, must also be behaviours of the spec
    from vlib import REPO, go_bin, go_env
    import subprocess
    raw = os.path.join(ctx.tmp, "dss_repo_tests.raw")
    env = go_env()
    env["VERIF_TRACE_OUT"] = raw
    p = subprocess.run([go_bin(), "test", "-count=1", "-tags", "verif", "./sign/dss/"], cwd=REPO, env=env,
                       capture_output=True, text=True, timeout=900)
    if p.returncode != 0 or not os.path.exists(raw):
        ctx.cov["skipped"]["repo sign/dss tests with hooks did not run"] = 1
        log("repo dss tests with hooks failed to run: " + (p.stdout + p.stderr)[-500:])
    else:
        evs = [json.loads(x) for x in open(raw)]
        evs.sort(key=lambda e: (e["obj"], e["seq"]))          # one object after the other
        open(tr, "a").write("".join(json.dumps(e) + "\n" for e in evs))
        ctx.cov["traces_validated_against_impl"] += len({e["obj"] for e in evs})
        ctx.cov["extra"].setdefault("repo_tests_trace", []).append({"objects": len({e["obj"] for e in evs}), "events": len(evs)})
    ok, at, _ = ctx.tlc_validate("DSSTrace", TRACE_CFG, tr, name="C12_trace_validate")
    if not ok:
        if at is None:
            raise Broken("trace validation failed without a rejected line")
        trace_violation(ctx, "driver" if at <= ndriver else "repo-tests", tr, at)
    # binding demonstration: one corrupted field must make the trace unacceptable
    if ok and not q:
        lines = [json.loads(x) for x in open(tr)]
        rnd = random.Random(ctx.seed)
        cand = [k for k, e in enumerate(lines) if e["ev"] == "ProcessPartialSig" and e["ret"] == "ok"]
        k = rnd.choice(cand)
        lines[k]["state"]["acc"] = [x for x in lines[k]["state"]["acc"] if x != lines[k]["args"]["from"]]
        badf = os.path.join(ctx.tmp, "dss_traces_corrupt.ndjson")
        open(badf, "w").write("".join(json.dumps(e) + "\n" for e in lines))
        ok2, at2, _ = ctx.tlc_validate("DSSTrace", TRACE_CFG, badf, name="C12_trace_selftest")
        if ok2 or at2 != k + 1:
            raise Broken("self-test: corrupted trace (line %d) was not rejected there (accepted=%s at=%s)" % (k + 1, ok2, at2))
        ctx.cov["extra"].setdefault("selftest", []).append({"corrupted_line": k + 1, "rejected_at": at2})


def c12(ctx):
    q = ctx.quick
    ctx.vh_share = ctx.build(pkg="./cmd/vh-share")
    jobs = [
        # exhaustive model check: several participants' objects side by side, <= 2 injected bad partials each
        dss_mc("C12_mc_n3", 3, (0, 2) if q else (0, 1, 2)),
        dss_mc("C12_mc_n4", 4, (0, 3)),
        # spec -> code: every maximal behaviour of one object (all t, all participants, all arrival orders of all
        # subsets, own partial before/after signing, injected bad partials of every kind from every signer)
        dss_gen("C12_paths_n3", 3, 2500 if q else 0, maxbad=1),
        # every message class (nil, empty, 1 byte, text, 64, 4096 bytes) x every "other message" taken relative to it
        # (empty / 1 byte, prefix, extension, last byte flipped): sessions set up, completed and verified for each class
        dss_gen("C12_msgs_n3", 3, 2500 if q else 0, maxbad=1, tset=(2,) if q else (1, 2, 3), msgs=ALL_MSGS,
                kinds=("othermsg",)),
        # DSS threshold stricter than the DKG's (keys generated with t-1): every arrival order, no signature before t partials
        dss_gen("C12_gap_n4", 4, 0, maxbad=0, tset=(3, 4), gap=1),
        dss_gen("C12_tour_n4", 4, 1500 if q else 8000, mode="tour", maxbad=2),
        dss_gen("C12_walk_n7", 7, 150 if q else 2500, maxbad=3, simulate="num=%d" % (60 if q else 1200), L=13, msgs=ALL_MSGS),
        dss_traces,
    ]
    if not q:
        jobs.insert(2, dss_mc("C12_mc_n4b", 4, (1, 2)))
        # two injected bad partials at every pair of positions (t = 2, participants 0 and 2, bad signers 1 and 2)
        jobs.insert(4, dss_gen("C12_paths_n3_bad2", 3, 12000, maxbad=2, tset=(2,), focus=(0, 2), badfrom=(1, 2)))
        jobs.insert(5, dss_gen("C12_paths_n4", 4, 12000, maxbad=1, badfrom=(0, 3)))
        jobs.insert(7, dss_gen("C12_walk_n5", 5, 2500, maxbad=3, simulate="num=1200", L=11, msgs=ALL_MSGS))
        jobs.insert(8, dss_gen("C12_walk_n6", 6, 2500, maxbad=3, simulate="num=1200", L=12, msgs=ALL_MSGS))
    run_jobs(ctx, jobs, parallel=3)
    return ctx.finish(
        "model_checking",
        "TLC: joint model of 2-3 participants' collectors for n=3,4, all t, <= 2 injected bad partials each, invariants "
        "OnlyValidContribute / NoSigBelowT / AllSignaturesEqual (threshold algebra over Z_11 through module Shamir) / RejectIsNoop; "
        "replay: behaviour = call sequence at one real dss.DSS object (PartialSig, ProcessPartialSig of kinds valid / duplicate / "
        "bad value re-signed / forged signer signature / other session / other message / index >= n, own partial before or after "
        "signing; message classes nil, empty, 1 byte, text, 64 B, 4096 B with the other message taken relative to it: empty / 1 byte, "
        "prefix, extension, flipped last byte; an honest session that cannot be set up is a violation; "
        "signing), every maximal behaviour for n=3, transition tour for n=4, random walks n=5..7, x keys from pedersen DKG, rabin DKG "
        "and a Shamir dealer; after EVERY step: result class, EnoughPartialSig, Signature ok/refused, bytes equal at all combiners "
        "of the session, dss.Verify, eddsa.Verify, schnorr.Verify, crypto/ed25519.Verify, rejection under another message; final phase "
        "(spec action VerifyAll): all n participants verify the combined signature concurrently, each must succeed; traces of a randomized "
        "driver and of the repo's own sign/dss tests (verif hooks) validated against DSSTrace; distinct = (key source, n, t, behaviour, step)",
        ["computational soundness of Schnorr / discrete log is not decided: forged and bad-value partials come from a finite menu of concretisations",
         "the DKGs are run honestly only (their fault behaviour is C11); rabin DKG refuses t = 1, covered by pedersen and the dealer",
         "signature equality across combiners is checked per session over all replayed behaviours; the three verifiers run on the first "
         "and on a 1/16 sample of later byte-identical signatures (they are pure functions of the bytes)"],
        exhaustive=False)


PROPS = {"C07": c07, "C12": c12}
