"""Family `codec`: C04 (spec/Decode.tla + DecodeTrace.tla) and C16 (spec/Encrypt.tla)."""
import json
import os

from vlib import Broken, cfg, log

PKG = "./cmd/vh-codec"

ASSUME_C04 = [
    "input classes are certified by harness/internal/codec/refmodel (math/big field, curve and subgroup arithmetic written independently of kyber; its parameters are cross-checked at start-up against the library's base points, k*B encodings and identity encodings); a witness is only used for the class refmodel assigns to it",
    "the space of byte strings is covered through a finite class lattice (length x format byte x coordinate range x membership x flag bits) with >= 8 witnesses per realisable class where the class has that many members, plus bit flips / truncations / extensions of valid encodings and random strings; classes refmodel cannot witness are counted (skipped.unwitnessed-class), never judged",
    "membership of GT elements is not promised by the property: for GT groups only totality and usability are checked",
    "composite parsers are checked for totality (ok or error, never a panic) on a finite mutation menu (truncations, extensions, bit flips, 00/ff, random, protobuf field surgery); whether a mutated message should verify is decided by C08/C09/C10/C14/C16",
    "a panic of the code under test is recovered by the harness and mapped to the outcome `crash`, which no action of the specification allows",
]


def _gen(ctx, module, consts, name, invariants=("Emit",)):
    out = os.path.join(ctx.tmp, name + ".ndjson")
    run = ctx.tlc(module, cfg(constants=consts, invariants=list(invariants)), name=name, collect=out)
    if run["behaviours"] == 0:
        raise Broken("generator %s produced no behaviours" % name)
    return out


def _load_objects(trace, meta):
    lines = open(trace).read().splitlines()
    ents = json.load(open(meta))
    objs = []
    for e in ents:
        objs.append((e, lines[e["first"] - 1:e["first"] - 1 + e["lines"]]))
    return objs


def _write_objects(path, objs):
    with open(path, "w") as f:
        for _, ls in objs:
            for l in ls:
                f.write(l + "\n")


def _trace_key(prop, ent, ev):
    word = {"accept": "accepted", "reject": "rejected", "ok": "ok", "error": "error"}.get(ev.get("ret"), ev.get("ret") or "?")
    if ent["kind"] == "composite":
        base = "%s/%s:%s/%s" % (prop, ent["subject"], ent["group"], ent["class"])
    else:
        base = "%s/%s/%s/%s" % (prop, ent["group"], ent["kind"], ent["class"])
    if ev["ev"] == "Use":
        return "%s/use:%s/%s" % (base, ev["args"].get("op"), word)
    return "%s/%s" % (base, word)


def _validate(ctx, module, consts, trace, name, prop, max_rounds=10, rec_per=None):
    """code -> spec: validates the recorded trace; every rejection is mapped back to the recorded object, keyed,
    reported, the objects with that key are removed and validation resumes (so one run reports all divergences)."""
    rec_per = rec_per or {}
    objs = []
    for t in ([trace] if isinstance(trace, str) else trace):
        objs += _load_objects(t, t + ".meta.json")
    cfg_text = cfg(spec="TraceSpec", constants=consts, constraint="Mark", postcondition="TraceAccepted")
    validated = 0
    for rnd in range(max_rounds + 1):
        cur = os.path.join(ctx.tmp, "%s-r%d.ndjson" % (name, rnd))
        _write_objects(cur, objs)
        nlines = sum(len(ls) for _, ls in objs)
        if nlines == 0:
            break
        ok, rej, run = ctx.tlc_validate(module, cfg_text, cur, name="%s_validate_r%d" % (name, rnd))
        if ok:
            validated = len(objs)
            break
        if rej is None or rej < 1 or rej > nlines:
            raise Broken("trace validation of %s failed without a usable REJECTED_AT (%s):\n%s" % (name, rej, run.get("tail", "")[-1200:]))
        pos = 0
        hit = None
        for ent, ls in objs:
            if pos < rej <= pos + len(ls):
                hit = (ent, ls, rej - pos - 1)
                break
            pos += len(ls)
        ent, ls, idx = hit
        ev = json.loads(ls[idx])
        key = _trace_key(prop, ent, ev)
        ctx.violations.append({
            "key": key,
            "what": "recorded run is not a behaviour of %s: %s %s, event %s%s -> %s (input class %s)" % (
                module, ent["group"], ent["subject"], ev["ev"], json.dumps(ev.get("args")), ev.get("ret"), ent["class"]),
            "detail": {"object": ent, "events": [json.loads(x) for x in ls], "rejected_event_index": idx,
                       "note": "trace validation (code -> spec); input_hex is one concrete input that produced this abstract object"},
            "driver": "composite-record" if ent["kind"] == "composite" else "decode-record",
            "args": ((["-only", ent["subject"], "-per", str(rec_per.get("composite", 4))] if ent["kind"] == "composite"
                      else ["-kind", ent["kind"], "-groups", ent["group"], "-per", str(rec_per.get(ent["kind"], 8))])
                     + ["-key", key, "-expect", json.dumps([json.loads(x) for x in ls])]),
            "pkg": PKG, "tags": "verif", "race": False})
        log("trace %s: event rejected at line %d -> %s" % (name, rej, key))

        def same(e, l):
            for x in l:
                try:
                    if _trace_key(prop, e, json.loads(x)) == key:
                        return True
                except Exception:
                    pass
            return False
        objs = [(e, l) for (e, l) in objs if not same(e, l)]
    else:
        ctx.assumptions.append("trace validation of %s stopped after %d reported divergences; later events not validated" % (name, max_rounds))
    return validated


def _selftest(ctx, binary, module, consts, driver, args, name):
    """binding demonstration: one recorded field corrupted -> the trace must be rejected at that line"""
    tr = os.path.join(ctx.tmp, name + "-corrupt.ndjson")
    res = ctx.run_vh(driver, args + ["-trace", tr, "-corrupt"], binary=binary)
    line = (res.get("extra") or {}).get("corrupted_line", 0)
    if not line:
        raise Broken("self-test %s: nothing to corrupt" % name)
    cfg_text = cfg(spec="TraceSpec", constants=consts, constraint="Mark", postcondition="TraceAccepted")
    ok, rej, _ = ctx.tlc_validate(module, cfg_text, tr, name=name + "_selftest")
    if ok or rej != line:
        raise Broken("self-test %s: corrupted trace (line %s) was %s at %s" % (name, line, "accepted" if ok else "rejected", rej))
    log("self-test %s: corrupted line %d rejected" % (name, line))


def c04(ctx):
    q = ctx.quick
    binary = ctx.build(pkg=PKG)
    per = 8 if q else 12
    uses = 2 if q else 3
    consts = {"Mode": "all", "MaxUses": uses}
    # 1. + 2. one exhaustive TLC run over every profile / parser: checks the meta-properties of the verdict relation
    # (Total, AcceptOnlyMembers, RejectNonMembers, RejectAllowedNonCanonical, FreedomExplicit, AcceptedIsMember) in
    # every state and emits every maximal behaviour (class x follow-up sequences) for the replayers (spec -> code)
    bh = _gen(ctx, "Decode", consts, "C04_gen", invariants=("TypeOK", "Meta", "Emit"))
    # 3. code -> spec: recorded runs (witnesses, bit flips, truncations, extensions, random strings) are written by the
    # same process (shared witness pools) and validated by TLC below
    trp = os.path.join(ctx.tmp, "C04_trace.ndjson")
    ctx.run_vh("c04-all", ["-in", bh, "-per", per, "-percomp", 4 if q else 10, "-trace", trp], binary=binary)
    traces = [trp + "." + k for k in ("point", "scalar", "composite")]
    tconsts = {"Mode": "all", "MaxUses": 4}
    validated = _validate(ctx, "DecodeTrace", tconsts, traces, "C04_trace", "C04",
                          rec_per={"point": per, "scalar": per, "composite": 4 if q else 10})
    ctx.cov["extra"]["trace_objects_validated"] = validated
    if not q:
        _selftest(ctx, binary, "DecodeTrace", tconsts, "decode-record",
                  ["-kind", "point", "-groups", "p256,ed25519,kilic-g1", "-per", 4], "C04_point")
        _selftest(ctx, binary, "DecodeTrace", tconsts, "composite-record",
                  ["-only", "vss-pedersen", "-per", 2], "C04_composite")
    return ctx.finish(
        "model_checking",
        "case = (group instance, point|scalar, input class of the Decode lattice, certified witness, decoding path UnmarshalBinary|UnmarshalFrom, follow-up sequence of length <= %d over Add/Mul/Neg/Marshal/Equal/Data/String/ReDecode) or (composite parser, configuration, mutation class, concrete mutation); "
        "TLC enumerates classes x follow-up sequences exhaustively and ships the allowed outcome sets; distinct = distinct (group, class, witness, path, sequence length) resp. (parser, configuration, mutation, variant); "
        "recorded direction: every run is logged as reset/Feed/Use (or Parse/Use) events, identical abstract objects merged, and TLC validates the log against DecodeTrace" % uses,
        ASSUME_C04, exhaustive=False)


ASSUME_C16 = [
    "computational hiding / unforgeability are not decided: integrity is checked against a finite family of alterations (bit flips at the first / middle / last byte of every field - every bit of every byte for three lengths in the thorough tier -, truncation by one byte, by the tag length, to the header, body alteration with the tag recomputed from public data), alone and in pairs in the thorough tier",
    "a case whose verdict would be a coin flip for a single run (IBE-CCA, one-byte message, wrong key: the Fujisaki-Okamoto check binds only 8 bits) is tagged free in Encrypt.tla and not judged",
    "LeakScan looks for 8-byte-aligned blocks of a random (incompressible) plaintext anywhere in the serialised ciphertext; a coincidence has probability < 2^-40",
    "encryption randomness comes from the library's own sources (crypto/rand, random.New()); keys, identities, recipient sets and messages derive from the seed; verdict classes do not depend on that randomness",
    "each decryption is handed its own copy of the ciphertext (anon.Decrypt modifies its input)",
]


def c16(ctx):
    q = ctx.quick
    binary = ctx.build(pkg=PKG)
    bh = os.path.join(ctx.tmp, "C16_gen.ndjson")
    run = ctx.tlc("Encrypt", cfg(constants={"MaxTampers": 1 if q else 2}, invariants=["TypeOK", "Meta", "Emit"],
                                 properties=["TamperMonotone"]), name="C16_gen", collect=bh)
    if run["behaviours"] == 0:
        raise Broken("Encrypt generator produced no behaviours")
    ctx.run_vh("encrypt-replay", ["-in", bh], binary=binary)
    return ctx.finish(
        "model_checking",
        "case = (scheme configuration: ECIES x 5 groups x 2 hashes | IBE CCA-on-G1 / CCA-on-G2 / CPA-on-G1 x 3 BLS12-381 back-ends | anonymous-set x 5 suites x recipient-set size x recipient index, "
        "message length class {0,1,hash-1,hash,hash+1,2hash,4096,>limit}, sequence of alterations of a private copy of the ciphertext, key relation right|wrong (two kinds of wrong key), concrete variant of the alteration); "
        "TLC enumerates every (scheme, length class, alteration sequence, key) and ships the allowed outcomes; the harness compares Encrypt (ok|refused), LeakScan (clean) and Decrypt (ok = exactly the original | other | error | crash)",
        ASSUME_C16, exhaustive=False)


PROPS = {"C04": c04, "C16": c16}
