#!/usr/bin/env python3
"""./check <Cxx> [--tier quick|thorough] [--seed N] [--replay file]"""
import argparse
import json
import os
import sys
import traceback

sys.path.insert(0, os.path.dirname(os.path.abspath(__file__)))
import vlib  # noqa: E402
from vlib import Broken, Ctx, cfg, log  # noqa: E402
import glob  # noqa: E402
import importlib  # noqa: E402

PROPS = {}
for _f in sorted(glob.glob(os.path.join(os.path.dirname(os.path.abspath(__file__)), "props_*.py"))):
    try:
        _m = importlib.import_module(os.path.basename(_f)[:-3])
        PROPS.update(_m.PROPS)
    except Exception as _e:  # a broken family must not take the others down
        print("[check] cannot load %s: %r" % (_f, _e), file=sys.stderr)


def main():
    ap = argparse.ArgumentParser()
    ap.add_argument("prop")
    ap.add_argument("--tier", default=os.environ.get("VERIF_TIER", "quick"))
    ap.add_argument("--seed", type=int, default=int(os.environ.get("VERIF_SEED", "1")))
    ap.add_argument("--replay")
    a = ap.parse_args()
    if a.prop not in PROPS:
        print("unknown property", a.prop, file=sys.stderr)
        return 2
    if a.tier not in ("quick", "thorough"):
        a.tier = "quick"
    ctx = Ctx(a.prop, a.tier, a.seed)
    try:
        if a.replay:
            return replay(ctx, a.replay)
        return PROPS[a.prop](ctx)
    except Broken as e:
        print("BROKEN (exit 2, no verdict): %s" % e, file=sys.stderr)
        return 2
    except Exception:
        traceback.print_exc()
        return 2
    finally:
        ctx.cleanup()


def replay(ctx, path):
    """re-runs exactly the case of a replay file against the current tree"""
    r = json.load(open(path))
    det = r.get("detail") or {}
    args = list(r.get("args") or [])
    if "behaviour" in det:   # behaviour-driven drivers: feed only that behaviour
        f = os.path.join(ctx.tmp, "replay.ndjson")
        open(f, "w").write(json.dumps(det["behaviour"]) + "\n")
        if "-in" in args:
            args[args.index("-in") + 1] = f
        else:
            args += ["-in", f]
        for flag in ("-max", "-maxslow"):
            if flag in args:
                i = args.index(flag)
                del args[i:i + 2]
        if det.get("group"):
            args += ["-groups", det["group"]]
    if "/firstuse/" in r.get("key", "") and "variant" in det:   # first-use probe: no behaviour file is involved
        if "-in" in args:
            i = args.index("-in")
            del args[i:i + 2]
        if "-firstuse" in args:
            i = args.index("-firstuse")
            del args[i:i + 2]
        args += ["-firstuse", str(det["variant"]), "-groups", det["group"]]
    ctx.seed = r.get("seed", ctx.seed)
    ctx.tier = r.get("tier", ctx.tier)
    binary = ctx.build(tags=r.get("tags", "verif"), race=bool(r.get("race")), pkg=r.get("pkg", "./cmd/vh"))
    ctx.run_vh(r["driver"], args, binary=binary)
    hit = [v for v in ctx.violations if v["key"] == r["key"]]
    if hit:
        print("VIOLATION property=%s replay=%s" % (ctx.prop, path))
        print("  key=%s :: %s" % (hit[0]["key"], hit[0]["what"]))
        return 1
    print("replay: the recorded case no longer violates %s" % ctx.prop)
    return 0


if __name__ == "__main__":
    sys.exit(main())
