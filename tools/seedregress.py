#!/usr/bin/env python3
"""seedregress.py [ids...]: re-run, on the current /repo HEAD + current /verif, every seeded change against
the check(s) recorded as catching it; writes seeded/<id>/final.json {applies, checks:{prop: rc}}."""
import json, os, subprocess, sys, glob, re, time
WT = os.environ.get("REGRESS_WT", "/tmp/regress-wt")
ids = sys.argv[1:] or sorted(os.path.basename(os.path.dirname(f)) for f in glob.glob("/verif/seeded/*/meta.json"))
subprocess.run(["git", "-C", "/repo", "worktree", "remove", "--force", WT], capture_output=True)
subprocess.run(["git", "-C", "/repo", "worktree", "add", "-q", "--detach", WT, "HEAD"], check=True)
for i in ids:
    d = "/verif/seeded/" + i
    m = json.load(open(d + "/meta.json"))
    props = [p for p, r in (m.get("checks_run") or {}).items() if r.get("rc") == 1]
    for h in m.get("history", []):
        for p in re.findall(r"\*\*caught\*\* by (C\d\d)(?:/(C\d\d))?", h):
            props += [x for x in p if x]
        mm = re.search(r"(C\d\d)(?: --tier thorough[^*]*)? \*\*caught\*\*", h)
        if mm:
            props.append(mm.group(1))
        for x in re.findall(r"(C\d\d) (?:now also )?\*\*caught\*\*", h):
            props.append(x)
    props = sorted(set(props)) or [m["property"]]
    tier = "thorough" if any("--tier thorough" in h for h in m.get("history", [])) else "quick"
    subprocess.run("git checkout -q -- . && git clean -fdq", shell=True, cwd=WT)
    a = subprocess.run(["git", "apply", d + "/patch.diff"], cwd=WT, capture_output=True, text=True)
    out = {"applies": a.returncode == 0, "tier": tier, "checks": {}}
    if a.returncode == 0:
        for p in props:
            t = time.time()
            r = subprocess.run(["./check", p, "--tier", tier], cwd="/verif", env=dict(os.environ, VERIF_REPO=WT), capture_output=True, text=True)
            out["checks"][p] = {"rc": r.returncode, "wall_s": round(time.time() - t)}
            if r.returncode == 1:
                break
    else:
        out["apply_error"] = a.stderr[-300:]
    json.dump(out, open(d + "/final.json", "w"), indent=1)
    print(i, out["applies"], {p: v["rc"] for p, v in out["checks"].items()}, flush=True)
subprocess.run(["git", "-C", "/repo", "worktree", "remove", "--force", WT], capture_output=True)
