#!/usr/bin/env python3
"""Regenerates /verif/MANIFEST.json from the table below (single source of truth)."""
import json
import os
import subprocess

ROOT = os.path.dirname(os.path.dirname(os.path.abspath(__file__)))

MC = "model_checking"
CHECKS = {
    "C01": dict(level=MC, design="5/C01", technique="TLA+ register-machine spec (KyberAlgebra, law programs) model-checked with TLC; TLC-generated behaviours replayed on all 21 group instances under homomorphic bindings",
                text="TLC checks the group and scalar-action laws on the free-algebra model for every operand-class tuple and generates every single-operation program plus simulated chains; each is replayed on every group instance with several bindings of the indeterminate and the result compared with an independently built canonical value; every run starts with a first-use probe (group constants are values, not storage shared with the first object that asked). Exhaustive in programs and operand classes, edge-biased in operand values.",
                note="trusted: TLC, the harness-side canonical route (double-and-add over the library's Add on fresh operands), math/big, the static group-order table; operand values are an edge-biased pool reached through the binding, not all of Z_q"),
    "C02": dict(level=MC, design="5/C02", technique="TLA+ Laurent-polynomial scalar spec model-checked with TLC; behaviours replayed on every scalar implementation with absolute math/big oracle",
                text="Every scalar program of length 2 over two registers with every aliasing (exhaustive) and simulated programs of length 9 are replayed on each of the 9 scalar implementations; after each step the receiver's encoding must equal the fixed-width encoding of eval(abstract, u) mod q. TinyField gives the exact Z_m tables (m = 2..17, all operand pairs, aliasings, SetInt64, SetBytes) on the default build and, for odd moduli, on the constantTime build.",
                note="trusted: TLC, math/big, static byte-order/order table; Inv/Div only by monomials c*u^k"),
    "C03": dict(level=MC, design="5/C03", technique="TLA+ spec (KyberAlgebra codec mode) model-checked with TLC; behaviours with encode/decode steps replayed through all three codec paths on all groups",
                text="Values built on several routes (non-normalised internal forms) are encoded and decoded between all register pairs through MarshalBinary, MarshalTo/UnmarshalFrom and the hex helpers; lengths, byte-identity across paths, round trip, canonicity (Equal iff same bytes) and non-mutation are compared with the model after every step.",
                note="trusted: TLC, canonical route; restricted to reduced scalars as the property is"),
    "C05": dict(level=MC, design="5/C05", technique="TLA+ register-machine spec with free receiver/operand registers (all aliasing patterns) model-checked with TLC; behaviours replayed on real objects with identity, value and non-interference checks after every step",
                text="All programs of length 2 over 2 scalar + 3 point registers from 4 pools with every aliasing pattern (exhaustive in the model, sampled per group in the quick tier) and simulated programs of length 6 are replayed on every group instance: returned object is the receiver, receiver holds the specified value, no other register's encoding changes, clones stay independent.",
                note="trusted: TLC, canonical route, Clone used for snapshots (itself one of the checked operations)"),
    "C06": dict(level=MC, design="5/C06", technique="three-sorted TLA+ spec (KyberPairing: G1, G2, GT as bilinear forms) model-checked with TLC; behaviours replayed on the five pairing suites",
                text="TLC checks bilinearity, additivity, identity and non-degeneracy on the bilinear-form model and generates all behaviours (operand classes incl. identity and generators, two pairings or GT operations, ValidatePairing) without pre-ops exhaustively and with arithmetic pre-ops by simulation; each pairing result must equal the form evaluated over four atom pairings by GT double-and-add, and ValidatePairing must equal equality of the forms.",
                note="trusted: TLC, GT double-and-add over the library's GT Add, the four atom pairings per binding; operands are small Laurent combinations of atoms under edge-biased bindings"),
    "C17": dict(level=MC, design="5/C17", technique="TLA+ spec of stream handles and point provenance (PickEmbed) model-checked with TLC; behaviours replayed on all groups with scripted adversarial streams; RFC 9380 vectors as fixed behaviours",
                text="The spec makes a stream's state its whole past, so two handles with equal pasts must yield Equal points; TLC enumerates all 2-step (simulated 6-step) sequences of NewStream/CopyStream/Pick/Embed/Hash/Codec and predicts for each produced point its relation to the other register and the bytes Data must return; the replayer checks q*P=O, determinism, losslessness (also after encode/decode), distinctness, Data range errors, the RFC 9380 vectors on every implementation, and a sweep of thousands of messages through every hash-to-group route (member, canonical, function of the message).",
                note="trusted: TLC, canonical route for q*P, blake2xb XOF as stream source, RFC vector files copied from circl testdata and the RFC appendix; collisions assumed negligible"),
    "C18": dict(level=MC, design="5/C18", technique="TLC-generated KyberAlgebra programs executed on every implementation of each group family and on three build variants; encodings / transcripts compared step by step and against math/big reference curves",
                text="One program file generated by TLC from the KyberAlgebra spec is the shared input of every implementation: members of a family run it with the same binding and atoms and must produce identical encodings after every step, equal to an independent arbitrary-precision model where one exists; the BLS12-381 back-ends must also agree on hash-to-curve, pairings and BLS signatures; the transcript binary built with tags default/generic/constantTime must print identical lines on common sections.",
                note="trusted: TLC, math/big reference curves (Edwards25519, P-256, BN G1), crypto/ed25519; programs are sampled from the exhaustive set in the quick tier"),
    "C10": dict(level=MC, design="5/C10 + notes/vss.md", technique="per-observer TLA+ aggregator spec (VSSAgg, requirement + implementation layers, both variants and roles) and VSSSystem model-checked with TLC; transition-tour and simulated behaviours replayed on real Dealer/Verifier objects; recorded and hook traces (incl. the repository's own tests) validated by VSSAggTrace",
                text="TLC exhausts the aggregator model (deal kinds, responses incl. duplicate/forged/wrong-session/out-of-range, justifications incl. unsigned/other-index/alternative-commitments, timeout anywhere) for N<=5 (thorough <=7) and checks NoBadApproval, CertifiedSound, BadDealerSticky, Refines etc.; every (abstract state, action) pair becomes one replay against real pedersen/rabin objects with outcome sets, response table, DealCertified/EnoughApprovals and recovery from T-subsets compared after every step; traces recorded from randomized drivers and from go test -tags verif ./share/vss/... are validated by TLC.",
                note="trusted: TLC, the harness-side envelope (ECDH+HKDF+AES-GCM) used for malformed plaintexts, Schnorr unforgeability; finite menus of deal/response/justification classes"),
    "C04": dict(level=MC, design="5/C04 + notes/codec.md", technique="case-lattice TLA+ spec (Decode: input classes x profiles x follow-up operations, composite parsers) model-checked with TLC incl. meta-properties; behaviours replayed with refmodel-certified witnesses; recorded decode logs validated by DecodeTrace",
                text="TLC enumerates every input class (length x format x range x membership x flags) for 8 point profiles, the scalar profile and 17 composite parsers with follow-up operations and checks Total / AcceptOnlyMembers / FreedomExplicit; the harness produces certified witnesses per class with an independent math/big model, feeds them to every decoder, and both replays TLC's behaviours and validates ~35k recorded (class, outcome, follow-up) runs against the trace spec; panics are 'crash', which is never allowed.",
                note="trusted: TLC, harness refmodel (math/big curves, Fp2), witness certification; wrong-length and non-canonical inputs are free (accept or reject) but every accepted value is re-classified as a member"),
    "C07": dict(level=MC, design="5/C07 + notes/share.md", technique="TLA+ spec of Shamir sharing over tiny real groups (Shamir.tla computes Lagrange interpolation in Z_q) model-checked with TLC; exact replay on kyber's generic code over p256.ResidueGroup(23,11,4) etc., lifted replay on large groups",
                text="The spec works in the same finite groups as kyber's residue group at (23,11,4), (11,5,4), (47,23,4): TLC checks that any >= t distinct shares (all subsets/orders/nil/surplus/duplicate patterns) reconstruct secret, commitment and polynomial, fewer are refused, Check(i,v) iff v=f(i+1), Add/Mul commute with evaluation; every value TLC computes is compared numerically with the real code (exact), and the same slice shapes run for n<=12 (thorough <=24) on eight large groups against the dealer's polynomial (lifted).",
                note="trusted: TLC arithmetic in Z_q, scripted polynomial construction; large-group runs compare against the dealer's own polynomial"),
    "C12": dict(level=MC, design="5/C12 + notes/share.md", technique="TLA+ spec of DSS participants (accepted set, signed flag; embeds Shamir) model-checked with TLC; behaviours replayed on real dss objects with keys from both DKGs; recorded and hook traces validated by DSSTrace",
                text="TLC exhausts n=3,4 (all t, arrival orders, <=2 injected bad partials per participant: bad value, forged, other session, other message, duplicate, bad index, own partial first) and checks OnlyValidContribute, NoSigBelowT, AllSignaturesEqual, RejectIsNoop; maximal behaviours, a transition tour and random walks (n<=7) are replayed on real DSS objects (Pedersen DKG, Rabin DKG and dealer keys) comparing result class, EnoughPartialSig, Signature and byte-equality at all combiners, with dss/eddsa/crypto-ed25519 verification; traces of a randomized driver and of the package's own tests are validated by TLC.",
                note="trusted: TLC, honest DKG runs in the harness to obtain keys, crypto/ed25519; replay of the two-bad-partials space is restricted in the thorough tier (model check covers it fully)"),
    "C16": dict(level=MC, design="5/C16 + notes/codec.md", technique="case-lattice TLA+ spec (Encrypt: scheme x length class x key relation x ciphertext alteration) model-checked with TLC; behaviours replayed on ECIES, IBE (CCA/CPA, both assignments, 3 back-ends) and anonymous-set encryption with leak scan",
                text="TLC enumerates every (scheme, length class, key relation, field alteration/truncation) and gives the verdict ok(m)/error; the replayer performs each alteration on real ciphertexts (fresh copy per decryption), compares the verdict, treats panics and different plaintexts as violations and scans accepted ciphertexts for plaintext blocks.",
                note="trusted: TLC; computational hiding/authenticity are approached by finite alteration menus; two recorded known findings (unkeyed anon MAC; IBE-CCA of the empty message)"),
    "C19": dict(level=MC, design="5/C19 + notes/xof.md", technique="TLA+ spec of XOF handles as (transcript, position, mode) (XOF.tla), TinyField/RandStream specs of util/random, model-checked with TLC; behaviours replayed on blake2xb, blake2xs, keccak against a single-shot reference; recorded op logs validated by XOFTrace",
                text="TLC checks that chunking, cloning and reseeding never change (transcript, position), Write-after-squeeze needs Reseed, Reset of a factory handle returns to the seeded state, and generates op sequences over two handles (exhaustive small depth, simulated to 30 steps); each is replayed on the three implementations against a handle built single-shot from the abstract transcript. random.Int/Bits are exact against the TLC model for moduli 1..17 over scripted streams (value and bytes consumed) and structural for moduli up to 521 bits; the multi-reader stream is checked for determinism, dependence on every reader and survival of failing readers.",
                note="trusted: TLC, single-shot reference built with New/Write/Read of the same implementation (so agreement across chunkings, not absolute test vectors), scripted streams; 'without modulo bias' is exact only for small moduli"),
    "C20": dict(level="exploration", design="5/C20 + notes/xof.md", technique="TLA+ footprint spec (SharedRead) model-checked with TLC enumerates read-only workloads; each workload executed by a -race build of the harness on shared objects, race reports attributed to kyber frames, results compared with sequential values",
                text="TLC checks NoConflict and ResultsSequential on the footprint model and enumerates the workloads (423 pairs, 1737 triples in thorough) of read-only operations on shared points (21 groups, decoded and non-normalised), scalars, suites, pairing suites, masks, public polynomials and verifiers; the race-built driver runs every workload with goroutines released by a barrier; a Go race report whose stack touches kyber, or a result differing from the sequential one, is the violation. Schedules are explored by the race detector's happens-before analysis, not by TLC, hence level exploration.",
                note="trusted: Go race detector, barrier-released goroutines with 1-12 repetitions; proof.HashVerify, shuffle verifiers and DKG/VSS objects are not covered"),
    "C08": dict(level=MC, design="5/C08 + notes/sig.md", technique="case-lattice TLA+ spec (SigVerify: semantic signature records, tamper set, verdict operator with meta-properties) model-checked with TLC; behaviours replayed on Schnorr (20 groups), EdDSA and ring signatures with math/big-certified concretisers and crypto/ed25519 cross-checks",
                text="TLC checks Total, AcceptImpliesUntouched, TamperMonotone, FreedomExplicit, StrictNoSecondEncoding and LinkSound over the whole case space and emits every Sign/Craft; Tamper*; Verify behaviour (ring sizes 1..8, every position, scope, single tampers; pairs in thorough); the replayer performs each abstract tamper on real bytes (S+L, R+torsion, non-canonical y, small-order points certified by a math/big Ed25519 model), compares verdicts, checks RFC 8032 byte-equality with crypto/ed25519, 'kyber accepts => crypto/ed25519 accepts', and tag linkage.",
                note="trusted: TLC, math/big Ed25519 reference, crypto/ed25519; unforgeability is approached by a finite tamper menu; strict canonicity is demanded only at the VerifyWithChecks entry points that promise it"),
    "C09": dict(level=MC, design="5/C09 + notes/sig.md", technique="TLA+ spec (MultiSig: BLS, TBLS partial lists, BDN/CoSi mask objects) model-checked with TLC; behaviours replayed on the 8 (suite, signature group) combinations; mask op traces recorded from real masks validated by MaskTrace",
                text="TLC enumerates partial-signature lists (valid/invalid/duplicate/garbage/wrong-message/short, any order, 2<=t<=n<=5), mask programs (constructor variants, SetBit, SetMask, Merge, Clone) and CoSi policies with the verdicts Recover ok iff >= t distinct valid indices, aggregate verifies iff mask and message match; the replayer runs them on real bls/tbls/bdn/cosi objects (two combinations exhaustively per seed, the rest sampled), compares recovered signatures byte-for-byte with signing under the group secret; recorded mask traces are validated by TLC.",
                note="trusted: TLC, pairing suites for verification; n<=8 by simulation; TBLS n=5 replayed with <=1 junk/duplicate"),
    "C11": dict(level=MC, design="5/C11 + notes/dkg.md", technique="TLA+ specs DKGPedersen (API level, fresh + resharing, regular + fast-sync, full fault menus), DKGProtocol (per-node delivery, set.Push, ticks, early transitions) and DKGRabin model-checked with TLC; behaviours replayed on real DistKeyGenerator / Protocol / rabin objects with hand-built faulty bundles; hook traces (repo tests and replays) validated by DKGPedersenTrace",
                text="TLC exhausts fresh DKG for n=3,4 (all t, <= n-t faulty parties with the property's fault menu, regular and fast-sync, delivery orders), six resharing shapes, the Protocol driver for n=3 with per-node orders/duplicates/equivocation, and Rabin n=3,4 with one faulty party, checking Agreement, SharesOnPoly, KeyIsSumOfQual/KeyUnchanged, UnjustifiedDealerOut, HonestDealerStays, AllHonestAllFinish; each behaviour is replayed on real objects (malicious parties are the harness signing hand-built bundles), comparing emitted responses/justifications and error classes per phase and deciding the requirement observables with real crypto; n=5..9 by simulation.",
                note="trusted: TLC, packet-signature unforgeability (no impersonation in the menus), synchronous rounds as in the code; six root-cause classes of genuine protocol-level defects are recorded as known findings (fast-sync + equivocation + late conflict; three Rabin DKG classes)"),
    "C13": dict(level=MC, design="5/C13 + notes/proof.md", technique="TLA+ spec of PVSS/DLEQ with provenance-tagged shares and proofs (requirement + implementation layers, refinement and filter meta-properties) model-checked with TLC; behaviours replayed on Ed25519, P-256 and the tiny residue group",
                text="TLC checks RefinesVerify, FilterExact, RefinesRec under one and two manipulations and enumerates n=2..5 (all t, every single-field mutation incl. the share index, cross-trustee swaps, forged share+simulated proof, every recovery subset and order; n<=10 simulated); the replayer performs each mutation on real shares/proofs and compares verification verdicts, batch results (exactly the untouched indices, in order) and the recovered point with the commitment of the secret.",
                note="trusted: TLC, symbolic DLEQ equations in the implementation layer, finite mutation menu; on the 11-element tiny group only accept-side verdicts are judged"),
    "C14": dict(level=MC, design="5/C14 + notes/proof.md", technique="TLA+ spec of Sigma-protocol predicates as data (Or of And of Rep), provers, mutations and verifier inputs (Sigma.tla) model-checked with TLC; behaviours replayed with HashProve/HashVerify and the deniable prover over a harness clique; recorded context calls validated by SigmaTrace",
                text="TLC enumerates all 44205 canonical predicate trees up to 2x2x2 with every branch choice, every single-variable falsification, every altered or truncated transcript item, every verifier-side change (points, predicate, protocol name) and two no-knowledge forgers, and larger shapes (4x4x3) by simulation; each behaviour is replayed on Ed25519, P-256 and BN256 G1 with the hash-based and the interactive deniable protocol, comparing accept/reject and the transcript item list; Put/Get/PubRand/PriRand traces of the real code are validated against the spec (extra coverage).",
                note="trusted: TLC, soundness approached by finite falsification/mutation/forger menus; thorough replay is a 40000-per-suite sample of the enumerated behaviours"),
    "C15": dict(level=MC, design="5/C15 + notes/proof.md", technique="TLA+ spec of shuffles with ciphertexts as coefficient vectors over input plaintexts and 19 adversary families (Shuffle.tla) model-checked with TLC; behaviours replayed on pair, simple, biffle and sequence shuffles with outputs certified by decryption",
                text="TLC enumerates k=2..5 with all permutations x all output families (honest, replacement, duplication, drop+add, swap, homomorphic sum, scalar multiple, splice, byte mutation, altered parameters, simple-shuffle detachment, kernel shift) for the four shuffle kinds (NQ 1..4) with verdict accept iff the output is a re-encryption permutation proven for it; the harness holds the ElGamal key, certifies every output class by decryption and compares the verifier's verdict.",
                note="trusted: TLC, harness-side forgers emitting the library's proof layout; soundness approached by finite strategy families; four recorded known findings (kernel shift: the statement is not hashed into the challenge)"),
}

NOT_YET = {
}

NA = {
}

IDS = ["C%02d" % i for i in range(1, 21)]


def main():
    hooks_commits = []
    try:
        out = subprocess.run(["git", "-C", "/repo", "log", "--format=%h %s"], capture_output=True, text=True).stdout
        for line in out.splitlines():
            h, _, subj = line.partition(" ")
            if subj.startswith("verif:") or subj.startswith("hook:"):
                hooks_commits.append(h)
    except Exception:
        pass
    checks = []
    for pid in IDS:
        if pid not in CHECKS:
            continue
        c = CHECKS[pid]
        checks.append({
            "property_id": pid,
            "quick_cmd": "./check %s --tier quick" % pid,
            "thorough_cmd": "./check %s --tier thorough" % pid,
            "evidence_file": "/verif/evidence/%s.json" % pid,
            "replay_cmd_template": "./check %s --replay {path}" % pid,
            "engine": "tlc+go-replay",
            "level_claimed": {"category": c["level"], "text": c["text"], "design_ref": "DESIGN.md §" + c["design"]},
            "level_note": c["note"],
            "technique": c["technique"],
        })
    na = []
    for pid in IDS:
        if pid in CHECKS:
            continue
        na.append({"property_id": pid, "reason": NA.get(pid) or NOT_YET.get(pid) or "check under construction in this session: specification and conformance harness not yet committed"})
    base = json.load(open("/root/.vp/BASELINE.json"))
    man = {
        "version": 1,
        "setup_cmd": "./setup.sh",
        "hooks": {
            "guard": "verif",
            "enable": "go build -tags verif (the harness is always built with -tags verif; hooks are //go:build verif files in /repo)",
            "baseline_off_cmd": base["cmd"],
            "source_commits": hooks_commits,
            "add_only": True,
        },
        "engines": [
            {"name": "tlc+go-replay", "path": "/verif/check", "serves_properties": sorted(CHECKS.keys()),
             "kind_free_text": "explicit TLA+ specifications under /verif/spec checked with TLC; TLC-generated behaviours replayed into the real Go packages (spec -> code) and traces recorded from the real code validated by TLC trace specifications (code -> spec); orchestration tools/check.py, Go harness /verif/harness"},
        ],
        "checks": checks,
        "not_applicable": na,
        "notes": "Every verdict comes from real-code behaviour; spec-only counter-examples, timeouts and tool failures exit 2. known_findings.json lists genuine defects (fixed by 'fix:' commits or recorded).",
    }
    json.dump(man, open(os.path.join(ROOT, "MANIFEST.json"), "w"), indent=1)
    print("MANIFEST.json: %d checks, %d not_applicable" % (len(checks), len(na)))


if __name__ == "__main__":
    main()
