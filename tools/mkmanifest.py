#!/usr/bin/env python3
"""Regenerates /verif/MANIFEST.json from the table below (single source of truth)."""
import json
import os
import subprocess

ROOT = os.path.dirname(os.path.dirname(os.path.abspath(__file__)))

MC = "model_checking"
CHECKS = {
    "C01": dict(level=MC, design="5/C01", technique="TLA+ register-machine spec (KyberAlgebra, law programs) model-checked with TLC; TLC-generated behaviours replayed on all 21 group instances under homomorphic bindings",
                text="TLC checks the group and scalar-action laws on the free-algebra model for every operand-class tuple and generates every single-operation program plus simulated chains; each is replayed on every group instance with several bindings of the indeterminate and the result compared with an independently built canonical value. Exhaustive in programs and operand classes, edge-biased in operand values.",
                note="trusted: TLC, the harness-side canonical route (double-and-add over the library's Add on fresh operands), math/big, the static group-order table; operand values are an edge-biased pool reached through the binding, not all of Z_q"),
    "C02": dict(level=MC, design="5/C02", technique="TLA+ Laurent-polynomial scalar spec model-checked with TLC; behaviours replayed on every scalar implementation with absolute math/big oracle",
                text="Every scalar program of length 2 over two registers with every aliasing (exhaustive) and simulated programs of length 9 are replayed on each of the 9 scalar implementations; after each step the receiver's encoding must equal the fixed-width encoding of eval(abstract, u) mod q.",
                note="trusted: TLC, math/big, static byte-order/order table; Inv/Div only by monomials c*u^k"),
    "C03": dict(level=MC, design="5/C03", technique="TLA+ spec (KyberAlgebra codec mode) model-checked with TLC; behaviours with encode/decode steps replayed through all three codec paths on all groups",
                text="Values built on several routes (non-normalised internal forms) are encoded and decoded between all register pairs through MarshalBinary, MarshalTo/UnmarshalFrom and the hex helpers; lengths, byte-identity across paths, round trip, canonicity (Equal iff same bytes) and non-mutation are compared with the model after every step.",
                note="trusted: TLC, canonical route; restricted to reduced scalars as the property is"),
    "C05": dict(level=MC, design="5/C05", technique="TLA+ register-machine spec with free receiver/operand registers (all aliasing patterns) model-checked with TLC; behaviours replayed on real objects with identity, value and non-interference checks after every step",
                text="All programs of length 2 over 2 scalar + 3 point registers from 4 pools with every aliasing pattern (exhaustive in the model, sampled per group in the quick tier) and simulated programs of length 6 are replayed on every group instance: returned object is the receiver, receiver holds the specified value, no other register's encoding changes, clones stay independent.",
                note="trusted: TLC, canonical route, Clone used for snapshots (itself one of the checked operations)"),
    "C06": dict(level=MC, design="5/C06", technique="three-sorted TLA+ spec (KyberPairing: G1, G2, GT as bilinear forms) model-checked with TLC; behaviours replayed on the five pairing suites",
                text="TLC checks bilinearity, additivity, identity and non-degeneracy on the bilinear-form model and generates all behaviours (operand classes incl. identity and generators, two pairings or GT operations, ValidatePairing) without pre-ops exhaustively and with arithmetic pre-ops by simulation; each pairing result must equal the form evaluated over four atom pairings by GT double-and-add, and ValidatePairing must equal equality of the forms.",
                note="trusted: TLC, GT double-and-add over the library's GT Add, the four atom pairings per binding; operands are small Laurent combinations of atoms under edge-biased bindings"),
    "C17": dict(level=MC, design="5/C17", technique="TLA+ spec of stream handles and point provenance (PickEmbed) model-checked with TLC; behaviours replayed on all groups with scripted adversarial streams; RFC 9380 vectors as fixed behaviours",
                text="The spec makes a stream's state its whole past, so two handles with equal pasts must yield Equal points; TLC enumerates all 2-step (simulated 6-step) sequences of NewStream/CopyStream/Pick/Embed/Hash/Codec and predicts for each produced point its relation to the other register and the bytes Data must return; the replayer checks q*P=O, determinism, losslessness (also after encode/decode), distinctness, Data range errors, and the RFC 9380 vectors on every implementation.",
                note="trusted: TLC, canonical route for q*P, blake2xb XOF as stream source, RFC vector files copied from circl testdata and the RFC appendix; collisions assumed negligible"),
    "C18": dict(level=MC, design="5/C18", technique="TLC-generated KyberAlgebra programs executed on every implementation of each group family and on three build variants; encodings / transcripts compared step by step and against math/big reference curves",
                text="One program file generated by TLC from the KyberAlgebra spec is the shared input of every implementation: members of a family run it with the same binding and atoms and must produce identical encodings after every step, equal to an independent arbitrary-precision model where one exists; the BLS12-381 back-ends must also agree on hash-to-curve, pairings and BLS signatures; the transcript binary built with tags default/generic/constantTime must print identical lines on common sections.",
                note="trusted: TLC, math/big reference curves (Edwards25519, P-256, BN G1), crypto/ed25519; programs are sampled from the exhaustive set in the quick tier"),
    "C10": dict(level=MC, design="5/C10 + notes/vss.md", technique="per-observer TLA+ aggregator spec (VSSAgg, requirement + implementation layers, both variants and roles) and VSSSystem model-checked with TLC; transition-tour and simulated behaviours replayed on real Dealer/Verifier objects; recorded and hook traces (incl. the repository's own tests) validated by VSSAggTrace",
                text="TLC exhausts the aggregator model (deal kinds, responses incl. duplicate/forged/wrong-session/out-of-range, justifications incl. unsigned/other-index/alternative-commitments, timeout anywhere) for N<=5 (thorough <=7) and checks NoBadApproval, CertifiedSound, BadDealerSticky, Refines etc.; every (abstract state, action) pair becomes one replay against real pedersen/rabin objects with outcome sets, response table, DealCertified/EnoughApprovals and recovery from T-subsets compared after every step; traces recorded from randomized drivers and from go test -tags verif ./share/vss/... are validated by TLC.",
                note="trusted: TLC, the harness-side envelope (ECDH+HKDF+AES-GCM) used for malformed plaintexts, Schnorr unforgeability; finite menus of deal/response/justification classes"),
}

NOT_YET = {
}

NA = {
}

IDS = ["C%02d" % i for i in range(1, 21)]


def main():
    hooks_commits = []
    try:
        out = subprocess.run(["git", "-C", "/repo", "log", "--format=%h %s"], capture_output=True, text=True).stdout
        for line in out.splitlines():
            h, _, subj = line.partition(" ")
            if subj.startswith("verif:") or subj.startswith("hook:"):
                hooks_commits.append(h)
    except Exception:
        pass
    checks = []
    for pid in IDS:
        if pid not in CHECKS:
            continue
        c = CHECKS[pid]
        checks.append({
            "property_id": pid,
            "quick_cmd": "./check %s --tier quick" % pid,
            "thorough_cmd": "./check %s --tier thorough" % pid,
            "evidence_file": "/verif/evidence/%s.json" % pid,
            "replay_cmd_template": "./check %s --replay {path}" % pid,
            "engine": "tlc+go-replay",
            "level_claimed": {"category": c["level"], "text": c["text"], "design_ref": "DESIGN.md §" + c["design"]},
            "level_note": c["note"],
            "technique": c["technique"],
        })
    na = []
    for pid in IDS:
        if pid in CHECKS:
            continue
        na.append({"property_id": pid, "reason": NA.get(pid) or NOT_YET.get(pid) or "check under construction in this session: specification and conformance harness not yet committed"})
    base = json.load(open("/root/.vp/BASELINE.json"))
    man = {
        "version": 1,
        "setup_cmd": "./setup.sh",
        "hooks": {
            "guard": "verif",
            "enable": "go build -tags verif (the harness is always built with -tags verif; hooks are //go:build verif files in /repo)",
            "baseline_off_cmd": base["cmd"],
            "source_commits": hooks_commits,
            "add_only": True,
        },
        "engines": [
            {"name": "tlc+go-replay", "path": "/verif/check", "serves_properties": sorted(CHECKS.keys()),
             "kind_free_text": "explicit TLA+ specifications under /verif/spec checked with TLC; TLC-generated behaviours replayed into the real Go packages (spec -> code) and traces recorded from the real code validated by TLC trace specifications (code -> spec); orchestration tools/check.py, Go harness /verif/harness"},
        ],
        "checks": checks,
        "not_applicable": na,
        "notes": "Every verdict comes from real-code behaviour; spec-only counter-examples, timeouts and tool failures exit 2. known_findings.json lists genuine defects (fixed by 'fix:' commits or recorded).",
    }
    json.dump(man, open(os.path.join(ROOT, "MANIFEST.json"), "w"), indent=1)
    print("MANIFEST.json: %d checks, %d not_applicable" % (len(checks), len(na)))


if __name__ == "__main__":
    main()
