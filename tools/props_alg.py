"""Properties decided through spec/KyberAlgebra.tla (+ KyberPairing, TinyField)."""
import os

from vlib import Broken, cfg, log

ASSUME_LIFT = [
    "homomorphic lifting: Z[u,1/u] -> Z_q and atoms -> concrete points extend to module homomorphisms, so every model equation must hold in the code for every binding; bindings come from an edge-biased pool, not all of Z_q",
    "the canonical route (double-and-add over the library's own Add on fresh operands) and, where used, math/big reference arithmetic are trusted",
    "group orders and scalar byte orders are stated by the harness (static table), not read from the library",
]


def alg_consts(mode, L):
    return {"Mode": mode, "L": L, "CMax": 6, "DMax": 6}


def mc_algebra(ctx, mode, L, name):
    """exhaustive model check of the algebra model itself (laws, value semantics) with VIEW hiding hist"""
    return ctx.tlc("KyberAlgebra", cfg(constants=alg_consts(mode, L), invariants=["TypeOK", "Laws"],
                                        properties=["ValueSemantics"], view="View"), name=name)


def gen_algebra(ctx, mode, L, name, simulate=None, depth=None):
    # note: in -simulate mode TLC evaluates the Emit invariant on every successor of the last
    # state of a trace, so each simulated trace yields one behaviour per enabled final step
    out = os.path.join(ctx.tmp, name + ".ndjson")
    run = ctx.tlc("KyberAlgebra", cfg(constants=alg_consts(mode, L), invariants=["Emit"]), name=name,
                  collect=out, simulate=simulate, depth=depth, workers=(1 if simulate else None))
    if run["behaviours"] == 0:
        raise Broken("generator %s produced no behaviours" % name)
    return out


def c02(ctx):
    q = ctx.quick
    mc_algebra(ctx, "scalar", 3 if q else 4, "C02_mc")
    bh = gen_algebra(ctx, "scalar", 3, "C02_gen_bfs")
    ctx.run_vh("alg", ["-in", bh, "-scalars", "-bindings", 4 if q else 16])
    sim = gen_algebra(ctx, "scalar", 10, "C02_gen_sim", simulate="num=%d" % (40 if q else 1000), depth=10)
    ctx.run_vh("alg", ["-in", sim, "-scalars", "-bindings", 3 if q else 8])
    # the same behaviours on the constantTime build (mod.Int on the bigmod engine, Ed25519, CIRCL)
    ct = ctx.build(tags="verif,constantTime")
    ctx.run_vh("alg", ["-in", bh, "-scalars", "-bindings", 3 if q else 12], binary=ct)
    ctx.run_vh("alg", ["-in", sim, "-scalars", "-bindings", 2 if q else 6], binary=ct)
    # Scalar.Pick on every group: in [0,q), a function of the bytes drawn (spec/PickEmbed.tla, op spick)
    pe = os.path.join(ctx.tmp, "C02_pick.ndjson")
    ctx.tlc("PickEmbed", cfg(constants={"L": 3}, invariants=["Emit"]), name="C02_gen_pick", collect=pe)
    ctx.run_vh("pickembed", ["-in", pe, "-lastop", "spick", "-max", 0, "-maxslow", 0])
    # exact: kyber's own mod.Int over Z_m, m = 2..17, every value predicted by TLC (spec/TinyField.tla)
    import props_xof
    # and the same exact tables on the constantTime build (bigmod engine: odd moduli only)
    ct_tiny = ctx.build(tags="verif,constantTime", pkg="./cmd/vh-tiny")
    props_xof.tiny_scalar(ctx, also=[(ct_tiny, "odd")])
    return ctx.finish("model_checking",
                      "behaviour = scalar program (all ops x all receiver/operand aliasings, exhaustive to length 2, simulated to length 9) x scalar implementation x binding of u; distinct = (implementation, binding, behaviour, step); every step compares the receiver's encoding with eval(abstract value, u) mod q computed with math/big, all other registers byte-identical, Equal partition",
                      ASSUME_LIFT, exhaustive=False)


def c05(ctx):
    q = ctx.quick
    mc_algebra(ctx, "alias", 2 if q else 3, "C05_mc")
    bh = gen_algebra(ctx, "alias", 3, "C05_gen_bfs")
    ctx.run_vh("alg", ["-in", bh, "-bindings", 2 if q else 3, "-max", 1500 if q else 0, "-maxslow", 150 if q else 6000])
    sim = gen_algebra(ctx, "alias", 7, "C05_gen_sim", simulate="num=%d" % (12 if q else 300), depth=7)
    ctx.run_vh("alg", ["-in", sim, "-bindings", 2 if q else 3, "-max", 0 if q else 4000, "-maxslow", 60 if q else 1000])
    # constantTime build: the groups it contains (Ed25519, CIRCL) and scalar aliasing on the bigmod engine
    ct = ctx.build(tags="verif,constantTime")
    ctx.run_vh("alg", ["-in", bh, "-bindings", 2, "-max", 1500 if q else 20000, "-maxslow", 150 if q else 3000], binary=ct)
    sc = gen_algebra(ctx, "scalar", 3, "C05_gen_scalar")
    ctx.run_vh("alg", ["-in", sc, "-scalars", "-bindings", 2 if q else 4], binary=ct)
    return ctx.finish("model_checking",
                      "behaviour = program over 2 scalar + 3 point registers with every aliasing pattern of receiver and operands (exhaustive to length 2 from 4 pools, simulated to length 6) x 21 group instances x bindings; after every step: returned object is the receiver, receiver encodes as the canonical-route value, every other register byte-identical, Equal partition",
                      ASSUME_LIFT, exhaustive=False)


def c01(ctx):
    q = ctx.quick
    mc_algebra(ctx, "law", 1 if q else 2, "C01_mc")
    bh = gen_algebra(ctx, "law", 2, "C01_gen_bfs")
    ctx.run_vh("alg", ["-in", bh, "-bindings", 3 if q else 12, "-max", 2500 if q else 0, "-maxslow", 250 if q else 8000])
    sim = gen_algebra(ctx, "law", 5, "C01_gen_sim", simulate="num=%d" % (30 if q else 600), depth=5)
    ctx.run_vh("alg", ["-in", sim, "-bindings", 2 if q else 6, "-max", 0 if q else 5000, "-maxslow", 60 if q else 1500])
    # the groups of the constantTime build configuration (Ed25519, CIRCL) on that build
    ct = ctx.build(tags="verif,constantTime")
    ctx.run_vh("alg", ["-in", bh, "-bindings", 2 if q else 6, "-max", 1500 if q else 0, "-maxslow", 150 if q else 4000], binary=ct)
    return ctx.finish("model_checking",
                      "behaviour = operand-class pool (11 scalar classes x 8 point classes squared) + group/scalar-action operations on unaliased destinations (exhaustive single ops, simulated chains of 4) x 21 group instances x bindings of u; each result must equal the canonical-route value of the abstract result, which TLC has shown to satisfy the abelian-group and scalar-action laws on all operand classes",
                      ASSUME_LIFT, exhaustive=False)


def c03(ctx):
    q = ctx.quick
    mc_algebra(ctx, "codec", 2 if q else 3, "C03_mc")
    bh = gen_algebra(ctx, "codec", 3, "C03_gen_bfs")
    # many bindings with a small sample each: the number of DISTINCT concrete values per group is what
    # finds encodings that are wrong for rare values only (e.g. a coordinate with a leading zero byte, 1 in 128)
    ctx.run_vh("alg", ["-in", bh, "-codecall", "-adapters", "-bindings", 24 if q else 48, "-max", 330 if q else 4000, "-maxslow", 40 if q else 700])
    return ctx.finish("model_checking",
                      "behaviour = pool value, one arithmetic step leaving a (possibly non-normalised) result, then encode/decode of any register into any register through MarshalBinary / MarshalTo+UnmarshalFrom / hex helpers; checks: advertised length, identical bytes on all three paths, decode succeeds, re-encoding byte-identical to the canonical-route value, encoded register unchanged, Equal iff identical encodings",
                      ASSUME_LIFT, exhaustive=False)


def c06(ctx):
    q = ctx.quick
    plain = {"PreOps": False, "InPlaceOps": False, "SmallPool": False, "CMax": 6, "DMax": 6}
    ctx.tlc("KyberPairing", cfg(constants=plain, invariants=["PairLaws"], view="ViewOperands"), name="C06_mc_laws")
    ctx.tlc("KyberPairing", cfg(constants=plain, invariants=["TypeOK"], view="View"), name="C06_mc")
    out = os.path.join(ctx.tmp, "C06_bfs.ndjson")
    ctx.tlc("KyberPairing", cfg(constants=plain, invariants=["Emit"]), name="C06_gen_bfs", collect=out)
    ctx.run_vh("pairing", ["-in", out, "-bindings", 2 if q else 4, "-max", 500 if q else 0])
    # every arithmetic pre-op on either side followed by every pairing of the (non-normalised) results: exhaustive
    # over a reduced pool, so that e.g. "negate an affine G2 point, then pair" is replayed whatever the seed
    sweep = dict(plain, PreOps=True, SmallPool=True)
    out3 = os.path.join(ctx.tmp, "C06_bfs_preops.ndjson")
    ctx.tlc("KyberPairing", cfg(constants=sweep, invariants=["Emit"]), name="C06_gen_bfs_preops", collect=out3)
    ctx.run_vh("pairing", ["-in", out3, "-bindings", 1 if q else 4, "-max", 0])
    # every second step followed by every in-place use of the first pairing result as an accumulator (t1 := t1 - t2 ...):
    # exhaustive over the reduced pool
    sweep2 = dict(plain, InPlaceOps=True, SmallPool=True)
    out4 = os.path.join(ctx.tmp, "C06_bfs_inplace_small.ndjson")
    ctx.tlc("KyberPairing", cfg(constants=sweep2, invariants=["Emit"]), name="C06_gen_bfs_inplace_small", collect=out4)
    ctx.run_vh("pairing", ["-in", out4, "-bindings", 2 if q else 4, "-max", 0])
    full = dict(plain, PreOps=True, InPlaceOps=True)
    acc = dict(plain, InPlaceOps=True)
    if not q:
        ctx.tlc("KyberPairing", cfg(constants=full, invariants=["PairLaws"], view="ViewOperands"), name="C06_mc_laws_preops")
        ctx.tlc("KyberPairing", cfg(constants=acc, invariants=["TypeOK"], view="View"), name="C06_mc_inplace")
        out2 = os.path.join(ctx.tmp, "C06_bfs_inplace.ndjson")
        ctx.tlc("KyberPairing", cfg(constants=acc, invariants=["Emit"]), name="C06_gen_bfs_inplace", collect=out2)
        ctx.run_vh("pairing", ["-in", out2, "-bindings", 2, "-max", 12000])
    for name, consts, num in (("acc", acc, 1500 if q else 8000), ("full", full, 300 if q else 5000)):
        sim = os.path.join(ctx.tmp, "C06_sim_%s.ndjson" % name)
        ctx.tlc("KyberPairing", cfg(constants=consts, invariants=["Emit"]), name="C06_gen_sim_" + name, collect=sim,
                simulate="num=%d" % num, depth=9, workers=1)
        ctx.run_vh("pairing", ["-in", sim, "-bindings", 2 if q else 4, "-max", 0])
    return ctx.finish("model_checking",
                      "behaviour = operand-class pool for G1 x G2 x scalar, optional arithmetic pre-ops leaving non-normalised operands, two pairings / GT operations, then ValidatePairing and GT equality; exhaustive without pre-ops (6910 behaviours), simulated with pre-ops; x 5 pairing suites x bindings of u; oracle: the bilinear form over atom pairings e(B1,B2), e(B1,H2), e(H1,B2), e(H1,H2) evaluated by double-and-add in GT",
                      ASSUME_LIFT + ["the four atom pairings are computed with the suite's own Pair; bilinearity is what relates every other pairing to them"], exhaustive=False)


def c17(ctx):
    q = ctx.quick
    ctx.tlc("PickEmbed", cfg(constants={"L": 3 if q else 4}, invariants=["Deterministic"], properties=["StreamDiscipline"], view="View"), name="C17_mc")
    out = os.path.join(ctx.tmp, "C17_bfs.ndjson")
    ctx.tlc("PickEmbed", cfg(constants={"L": 3}, invariants=["Emit"]), name="C17_gen_bfs", collect=out)
    ctx.run_vh("pickembed", ["-in", out, "-max", 1500 if q else 0, "-maxslow", 150 if q else 3000])
    sim = os.path.join(ctx.tmp, "C17_sim.ndjson")
    ctx.tlc("PickEmbed", cfg(constants={"L": 7}, invariants=["Emit"]), name="C17_gen_sim", collect=sim,
            simulate="num=%d" % (20 if q else 400), depth=7, workers=1)
    ctx.run_vh("pickembed", ["-in", sim, "-max", 700 if q else 6000, "-maxslow", 100 if q else 1500])
    ctx.run_vh("h2c", ["-max", 3000 if q else 30000])
    return ctx.finish("model_checking",
                      "behaviour = sequence of NewStream/CopyStream/Pick/Embed/Hash/Codec over 2 stream handles (seeded XOF; adversarial all-00 / all-ff prefixes forcing retries) and 2 point registers, data lengths 0..EmbedLen+8 x contents, messages of length 0..300 x tags (exhaustive to 2 steps, simulated to 6) x 21 group instances (capability matrix); after each producing step: q*P = O on the canonical route, Data() returns the stored bytes (also after encode/decode), relation to the other register (equal / differ) as the model predicts; plus Data() range check on 400 random members per embedding group and RFC 9380 vectors",
                      ["collision resistance: 'differ' verdicts assume no accidental collision", "the length-field layout per group (harness table transcribed from Embed) and RFC 9380 vectors embedded in the harness are trusted"], exhaustive=False)


def _sections(path):
    d = {}
    for line in open(path):
        if line.startswith("#"):
            continue
        f = line.rstrip("\n").split("|")
        sec = f[0] if (f[0] in ("modint", "random", "xof", "schnorr", "eddsa", "share", "pubshare", "recover") or f[0].startswith("decode:")) else "group:" + f[0]
        d.setdefault(sec, []).append(line.rstrip("\n"))
    return d


def c18(ctx):
    import random
    import subprocess
    q = ctx.quick
    mc_algebra(ctx, "alias", 2, "C18_mc")
    bfs = gen_algebra(ctx, "alias", 3, "C18_gen_bfs")
    ctx.run_vh("agree", ["-in", bfs, "-bindings", 2 if q else 6, "-max", 1200 if q else 20000, "-maxslow", 120 if q else 2000])
    sim = gen_algebra(ctx, "alias", 14, "C18_gen_sim", simulate="num=%d" % (10 if q else 300), depth=14)
    ctx.run_vh("agree", ["-in", sim, "-bindings", 2 if q else 4, "-max", 0 if q else 8000, "-maxslow", 100 if q else 1500])
    # (ii) build variants: same deterministic computation, three builds of the library
    rnd = random.Random(ctx.seed)
    lines = open(bfs).readlines()
    pick = rnd.sample(lines, min(len(lines), 400 if q else 4000)) + open(sim).readlines()[: (200 if q else 3000)]
    prog = os.path.join(ctx.tmp, "C18_programs.ndjson")
    open(prog, "w").writelines(pick)
    outs = {}
    for name, tags in (("default", "verif"), ("generic", "verif,generic"), ("constantTime", "verif,constantTime")):
        b = ctx.build(tags=tags, pkg="./cmd/transcript")
        o = os.path.join(ctx.tmp, "transcript-%s.txt" % name)
        with open(o, "w") as f:
            p = subprocess.run([b, "-in", prog, "-seed", str(ctx.seed)], stdout=f, stderr=subprocess.PIPE, text=True, timeout=3000)
        if p.returncode != 0:
            raise Broken("transcript %s failed: %s" % (name, p.stderr[-2000:]))
        outs[name] = _sections(o)
    base = outs["default"]
    compared = 0
    for name in ("generic", "constantTime"):
        for sec, ls in outs[name].items():
            if sec not in base:
                continue
            compared += len(ls)
            if ls != base[sec]:
                first = next((i for i, (a, b) in enumerate(zip(base[sec], ls)) if a != b), min(len(ls), len(base[sec])))
                ctx.violations.append({"key": "C18/build/%s-vs-default/%s/differs" % (name, sec),
                                       "what": "transcripts of the default and the %s build differ in section %s" % (name, sec),
                                       "detail": {"line": first, "default": base[sec][first:first + 2], name: ls[first:first + 2]},
                                       "driver": "transcript", "args": []})
    if compared == 0:
        raise Broken("no transcript lines compared")
    ctx.cov["evaluations"] += compared
    ctx.cov["distinct_nontrivial"] += compared
    ctx.cov["traces_validated_against_impl"] += len(pick) * 3
    ctx.cov["extra"]["transcript"] = {"programs": len(pick), "lines_compared": compared,
                                      "sections": {k: sorted(v.keys()) for k, v in outs.items()}}
    return ctx.finish("model_checking",
                      "behaviour = KyberAlgebra program (exhaustive 2-step sample + simulated 13-step programs) run with one binding and shared atoms on every implementation of a group family: ed25519 {constant-time, opt-in vartime Mul, edwards25519vartime projective, extended} + math/big Edwards reference + crypto/ed25519 key derivation; P-256, BN256 G1, BN254 G1 vs math/big Weierstrass reference; BLS12-381 {kilic, circl, gnark} G1, G2, GT, scalars, hash-to-curve, pairings, BLS signatures; encodings compared step by step; and the same programs + scheme-level computations as transcripts of three builds (default, generic, constantTime) compared line by line",
                      ASSUME_LIFT + ["the reference models are affine math/big implementations written for this harness"], exhaustive=False)


PROPS = {"C18": c18, "C17": c17, "C06": c06, "C01": c01, "C02": c02, "C03": c03, "C05": c05}
