#!/usr/bin/env python3
"""seedtest.py <prop> <worktree> <mutout-dir> [check-props...]
For each m*/ in mutout-dir: apply patch.diff in the worktree, run the demonstration (must fail with the
patch, pass without), run ./check <prop> (and any extra props) against the worktree (VERIF_REPO), undo.
Writes <mutout-dir>/m*/result.json."""
import json, os, subprocess, sys, time, glob

prop, wt, outdir = sys.argv[1:4]
props = sys.argv[4:] or [prop]
GO = "/root/go/pkg/mod/golang.org/toolchain@v0.0.1-go1.25.0.linux-amd64/bin/go"
env = dict(os.environ, GO=GO, GOTOOLCHAIN="local", GOFLAGS="-mod=mod", GOPROXY="off")

def sh(cmd, cwd=None, timeout=3600):
    p = subprocess.run(["bash", "-c", cmd], cwd=cwd, env=env, capture_output=True, text=True, timeout=timeout)
    return p.returncode, (p.stdout + p.stderr)[-3000:]

def clean():
    sh("git checkout -q -- . && git clean -fdq", cwd=wt)

for m in sorted(glob.glob(os.path.join(outdir, "m*"))):
    if not os.path.exists(os.path.join(m, "patch.diff")):
        continue
    meta = json.load(open(os.path.join(m, "meta.json")))
    res = {"mutation": m, "property": prop}
    clean()
    demo = meta.get("demo_cmd", "")
    import re
    demo = re.sub(r"\s*;\s*rm\s+(-r?f?\s+)?\S+\s*$", "", demo)   # keep the test's exit status (git clean removes the files)
    demo = re.sub(r"\s+\(env [^)]*\)\s*$", "", demo)         # a trailing explanatory parenthesis is not part of the command
    rc0, out0 = sh(demo, cwd=wt)
    res["demo_without_patch_rc"] = rc0
    clean()
    rc, out = sh("git apply %s" % os.path.join(m, "patch.diff"), cwd=wt)
    if rc != 0:
        res["apply_error"] = out
        json.dump(res, open(os.path.join(m, "result.json"), "w"), indent=1)
        continue
    rc1, out1 = sh(demo, cwd=wt)
    res["demo_with_patch_rc"] = rc1
    res["demo_with_patch_tail"] = out1[-600:]
    sh("git clean -fdq", cwd=wt)   # remove demo files, keep the patch
    res["checks"] = {}
    if os.environ.get("DEMO_ONLY"):
        old = os.path.join(m, "result.json")
        if os.path.exists(old):
            res["checks"] = json.load(open(old)).get("checks", {})
        props_run = []
    else:
        props_run = props
    for p in props_run:
        t = time.time()
        e2 = dict(env, VERIF_REPO=wt)
        pr = subprocess.run(["./check", p, "--tier", "quick"], cwd="/verif", env=e2, capture_output=True, text=True, timeout=7200)
        vio = [l for l in pr.stdout.splitlines() if l.startswith("VIOLATION") or l.strip().startswith("key=")]
        res["checks"][p] = {"rc": pr.returncode, "wall_s": round(time.time() - t), "violations": vio[:12],
                            "stderr_tail": pr.stderr[-400:] if pr.returncode == 2 else ""}
    clean()
    json.dump(res, open(os.path.join(m, "result.json"), "w"), indent=1)
    print(m, res.get("demo_without_patch_rc"), res.get("demo_with_patch_rc"), {p: r["rc"] for p, r in res["checks"].items()}, flush=True)
