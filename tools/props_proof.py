"""Family `proof`: C13 (PVSS / DLEQ, spec/PVSS.tla), C14 (sigma protocols, spec/Sigma.tla +
SigmaTrace.tla), C15 (verifiable shuffles, spec/Shuffle.tla)."""
import os
from concurrent.futures import ThreadPoolExecutor

from vlib import Broken, cfg, log

ASSUME_CASES = [
    "soundness / unforgeability is checked against the finite families of manipulations the specification enumerates, not against all adversaries",
    "an 'altered' value is one concrete semantically different value per slot (P+Base, s+1, another trustee's value); the concretiser certifies the difference with Equal and the encodings",
]


def par(ctx, thunks, width=6):
    """runs independent TLC jobs concurrently (small models do not scale with workers; JVM start-up dominates)"""
    with ThreadPoolExecutor(width) as ex:
        futs = [ex.submit(t) for t in thunks]
        out = [f.result() for f in futs]
    ctx.cov["states"] = sum(r["states"] for r in ctx.cov["tlc_runs"])
    ctx.cov["transitions"] = sum(r["transitions"] for r in ctx.cov["tlc_runs"])
    return out


def vh(ctx):
    return ctx.build(pkg="./cmd/vh-proof")


def gen(ctx, module, consts, name, simulate=None, depth=None, invariants=("Emit",), workers=None, timeout=1700):
    out = os.path.join(ctx.tmp, name + ".ndjson")
    run = ctx.tlc(module, cfg(constants=consts, invariants=list(invariants)), name=name, collect=out,
                  simulate=simulate, depth=depth, workers=(1 if simulate else workers), timeout=timeout)
    if run["behaviours"] == 0:
        raise Broken("generator %s produced no behaviours" % name)
    return out


# ------------------------------------------------------------------ C13
PVSS_INV = ["Total", "RefinesVerify", "AcceptImpliesUntouched", "FilterExact", "RefinesRec", "HonestAccepts"]


def pvss_consts(shape, nmin, nmax, tamper=1, rec="pick", fixed=True):
    return {"Shape": shape, "NMin": nmin, "NMax": nmax, "MaxTamper": tamper, "RecMode": rec, "CheckDecIndex": fixed, "HashDecBase": True,
            "Rels": ["indep", "HeqG", "HnegG", "H2G", "Hid", "Gid"]}


def c13(ctx):
    q = ctx.quick
    b = vh(ctx)
    W = 4
    mc = lambda shape, lo, hi, tamper, name: (lambda: ctx.tlc("PVSS", cfg(constants=pvss_consts(shape, lo, hi, tamper=tamper),
                                                                         invariants=PVSS_INV, view="View"), name=name, workers=W))

    def unfixed():
        # the design as pinned (nothing authenticates the index of a decrypted share) must FAIL the same invariants
        # in the model: TLC re-derives DESIGN 7 #14 at design level (a lead; the verdict comes from the replay)
        run = ctx.tlc("PVSS", cfg(constants=pvss_consts("dec", 2, 3, fixed=False), invariants=PVSS_INV, view="View"),
                      name="C13_mc_dec_unfixed_design", allow_violation=True, workers=2)
        ctx.cov["extra"]["model_of_unfixed_design_violates_invariants"] = bool(run["violated"])
        if not run["violated"]:
            raise Broken("self-test: the model without the index check satisfies the invariants - the specification lost its teeth")

    g = lambda shape, lo, hi, name, **kw: (lambda: gen(ctx, "PVSS", pvss_consts(shape, lo, hi, rec=kw.pop("rec", "pick")), name, workers=W, **kw))
    nsim = 40 if q else 600
    jobs = [
        # (1) the case space itself: verdict relation total, design equations refine the requirement, also under
        # a second manipulation (MaxTamper = 2), batch filters exact, recovery iff >= t valid
        mc("enc", 2, 3 if q else 4, 2, "C13_mc_enc"), mc("dec", 2, 3, 2, "C13_mc_dec2"), mc("dec", 2, 4 if q else 5, 1, "C13_mc_dec"),
        mc("batch", 1, 4, 2, "C13_mc_batch"), mc("dleq", 1, 3, 2, "C13_mc_dleq"), unfixed,
        # (2) spec -> code, exhaustive: n = 2..5, every t, no / every single mutation, every subset in every order
        g("enc", 2, 5, "C13_gen_enc"), g("dec", 2, 5, "C13_gen_dec", rec="all"), g("batch", 1, 4, "C13_gen_batch"), g("dleq", 1, 3, "C13_gen_dleq"),
        # (3) sampled: n = 6..10
        g("enc", 6, 10, "C13_sim_enc", simulate="num=%d" % nsim, depth=6), g("dec", 6, 10, "C13_sim_dec", simulate="num=%d" % nsim, depth=16),
    ]
    outs = par(ctx, jobs)
    for i, bh in enumerate(outs[6:]):
        # quick: every behaviour on every suite; Recover selections complete for n <= 4, for n = 5 a
        # (seed, suite, behaviour)-dependent sample of 64 of the 325 selections per behaviour
        ctx.run_vh("pvss", ["-in", bh] + (["-maxrec", 64 if q else 0] if i == 1 else []), binary=b)
    return ctx.finish(
        "model_checking",
        "case = (n, t, shape, mutation, position(s), [selection = subset in an order]); TLC enumerates n=2..5 x all t x {no mutation, every single "
        "mutation of an encrypted package (V,C,R,VG,VH,index,key,commitment j, swap share/proof/both with trustee j, share replaced together with a simulated proof), of a decrypted package "
        "(V,C,R,VG,VH,index,key,encrypted value, swaps, simulated proof)} x every sequence of distinct positions for RecoverSecret; DecShareBatch over 1..4 deals; "
        "DLEQ single and batch proofs over independent, equal (H = G, so xG = xH), opposite, doubled and identity bases with every single field / base / claimed-point mutation and swaps; n=6..10 by TLC -simulate. Each case is "
        "replayed on Ed25519, P-256 and (accept side only) kyber's own residue group of order 11; distinct = (suite, behaviour, call, position/selection)",
        ASSUME_CASES + [
            "VerifyEncShare / DecShare take the expected global challenge as an argument and the package does not export its computation: the harness "
            "recomputes it from the received commitments and shares as VerifyEncShareBatch does (agreement with the dealer's value is asserted on every honest deal)",
            "sH[i] is computed as pubPoly.Eval(encShares[i].S.I).V, the way the package's own users and tests do",
            "on the order-11 group proofs have soundness error 1/11, so only must-accept verdicts and recoveries over untouched shares are judged there",
            "an untouched share inside a package whose other share was altered may be accepted or rejected (the global challenge makes the code reject it); such verdicts are compared with the implementation-shaped layer and only counted as drift",
        ], exhaustive=not q)


# ------------------------------------------------------------------ C15
SHUF_INV = ["Total", "AcceptImpliesPerm", "Refines", "HonestAccepted", "FamiliesBite", "Designed"]
OUT_F = ["replaceX", "replaceY", "oppXY", "oppXYcross", "replace", "rerand", "scal", "dup", "sum", "swapXY", "swapX"]
PRF_F = ["none", "gen", "ident", "mutate", "trunc", "truncbytes", "trunczero", "splice", "param", "input"]
SHUF_FAMS = {
    "pair": OUT_F + PRF_F + ["honestlib", "detach", "kshift", "kshiftX", "eqviol", "reprove"],
    "seq": OUT_F + PRF_F + ["seqperm", "kshift", "kshiftX", "eqviol", "reprove"],
    "biffle": OUT_F + PRF_F + ["comptamper", "simboth", "reprove"],
    "simple": ["none", "gen", "ident", "truncbytes", "trunczero", "replace", "scal", "dup", "sum", "mutate", "trunc", "splice", "param", "eqviol", "reprove"],
}


def shuf_consts(kind, kmin, kmax, nq=1, bind_simple=True, fams=None):
    return {"Kind": kind, "KMin": kmin, "KMax": kmax, "NQMax": nq, "Fams": fams or SHUF_FAMS[kind],
            "BindSimple": bind_simple, "BindStatement": True}


def c15(ctx):
    q = ctx.quick
    b = vh(ctx)
    W = 4
    # one TLC run per kind checks the meta-properties of the case space AND emits every case (BFS = exhaustive)
    ex = lambda kind, lo, hi, nq, name: (lambda: gen(ctx, "Shuffle", shuf_consts(kind, lo, hi, nq), name,
                                                    invariants=SHUF_INV + ["Emit"], workers=W))
    sim = lambda kind, lo, hi, nq, num, name: (lambda: gen(ctx, "Shuffle", shuf_consts(kind, lo, hi, nq), name, invariants=["Emit"],
                                                          simulate="num=%d" % num, depth=hi + 6))

    def unfixed():
        run = ctx.tlc("Shuffle", cfg(constants=shuf_consts("pair", 2, 2, bind_simple=False), invariants=SHUF_INV),
                      name="C15_mc_pair_unbound_design", allow_violation=True, workers=2)
        ctx.cov["extra"]["model_of_design_without_simple_shuffle_binding_violates_invariants"] = bool(run["violated"])
        if not run["violated"]:
            raise Broken("self-test: the model without the simple-shuffle binding satisfies the invariants")

    # the two big enumerations are split by family into two TLC runs each (same permutations, disjoint families; wall time)
    half = lambda kind, fams, name: (lambda: gen(ctx, "Shuffle", shuf_consts(kind, 2, 5, 1, fams=fams), name,
                                                 invariants=SHUF_INV + ["Emit"], workers=W))
    pair_b = [f for f in SHUF_FAMS["pair"] if f not in OUT_F]
    simple_a = ["replace", "scal", "dup", "sum", "mutate", "eqviol"]
    simple_b = [f for f in SHUF_FAMS["simple"] if f not in simple_a]

    def joined(name, *thunks):
        def run():
            parts = par(ctx, list(thunks), width=len(thunks))
            out = os.path.join(ctx.tmp, name + ".ndjson")
            with open(out, "w") as f:
                for p in parts:
                    f.write(open(p).read())
            return out
        return run

    jobs = [
        joined("C15_pair", half("pair", OUT_F, "C15_pair_out"), half("pair", pair_b, "C15_pair_prf")),
        joined("C15_simple", half("simple", simple_a, "C15_simple_a"), half("simple", simple_b, "C15_simple_b")),
        ex("biffle", 2, 2, 1, "C15_biffle"),
        ex("seq", 2, 3 if q else 4, 4, "C15_seq"),
        sim("pair", 6, 12 if q else 40, 1, 25 if q else 250, "C15_sim_pair"),
        sim("simple", 6, 12 if q else 40, 1, 10 if q else 100, "C15_sim_simple"),
        sim("seq", 4 if q else 5, 8 if q else 16, 4, 15 if q else 200, "C15_sim_seq"),
        unfixed,
    ]
    outs = par(ctx, jobs, width=8)
    caps = {0: 3500 if q else 0, 1: 3000 if q else 0, 3: 2000 if q else 0}
    for i, bh in enumerate(outs[:7]):
        ctx.run_vh("shuffle", ["-in", bh, "-max", caps.get(i, 0)], binary=b)
    return ctx.finish(
        "model_checking",
        "case = (kind in {pair, simple, biffle, sequences}, k, NQ, permutation, adversary family, family parameters); TLC BFS enumerates every permutation "
        "for k=2..5 (sequences k<=4, NQ=1..4) x every family {honest, library-chosen permutation, single-slot replacement (one component / fresh "
        "ciphertext), duplication (= drop+add), swap without re-proof (one component / whole pair), late re-randomisation, homomorphic sum, scalar "
        "multiple, per-sequence permutation mismatch, transcript splice of two honest proofs at every message boundary, semantic mutation of the first/last "
        "element of every transcript item, truncation at every message boundary, altered G / H / Gamma, altered verifier input, simple-shuffle detachment "
        "forgery, sigma-kernel shift of two outputs} x parameters; k<=12 (thorough <=40) by -simulate; replay on Ed25519 and P-256 through "
        "proof.HashProve/HashVerify; the harness certifies each output class by decrypting with the key it holds; distinct = (suite, behaviour)",
        ASSUME_CASES + [
            "soundness of the shuffles is approached by the listed families of prover / man-in-the-middle strategies, not proved",
            "biffle and sequence shuffles choose their permutation themselves: the harness retries (<= 60 times) to obtain the permutation TLC asked for and otherwise continues with the library's choice (counted in extra)",
            "an output that is a valid permutation of re-encryptions but not the one the proof was made for (full swap, late re-randomisation) may be accepted or rejected; compared with the implementation-shaped layer as drift only",
            "quick tier replays a (seed, suite)-dependent sample of 3500 of the pair-shuffle cases, 3000 of the simple-shuffle cases and 2000 of the sequence cases per suite; thorough replays all",
        ], exhaustive=not q)


# ------------------------------------------------------------------ C14
SIG_INV = ["Total", "AcceptIffClean", "OtherBranchesIrrelevant", "FalsLocal", "FaultNeverAccepted", "ItemCount", "CommitFirst", "Shape"]


def sig_consts(mode, br, rep, term, ns, nb, terms, wraps=("min", "full"), faults=(0,), names=(20,), runs=(1,), nests=(0,)):
    return {"MaxBr": br, "MaxRep": rep, "MaxTerm": term, "NS": ns, "NB": nb, "MaxTerms": terms, "Mode": mode, "Wraps": list(wraps),
            "Faults": list(faults), "NameLens": list(names), "Runs": list(runs), "Nests": list(nests)}


SIGTRACE_CFG = """SPECIFICATION TraceSpec
CONSTANTS
  MaxBr = 4
  MaxRep = 4
  MaxTerm = 3
  NS = 4
  NB = 5
  MaxTerms = 48
  Mode = "sat"
  Wraps = {"min"}
  Faults = {0}
  NameLens = {20}
  Runs = {1}
  Nests = {0}
CONSTRAINT Mark
POSTCONDITION TraceAccepted
CHECK_DEADLOCK FALSE
"""


def run_sigma(ctx, args, binary):
    """The sigma driver runs library code that starts goroutines of its own (deniable verifiers) and runs verifications
    concurrently; a panic inside such a goroutine cannot be recovered by the harness and kills the process with a Go
    crash trace. A crash whose trace runs through the library is reported as a violation (stable key), not as exit 2."""
    try:
        return ctx.run_vh("sigma", args, binary=binary)
    except Broken as e:
        msg = str(e)
        if "goroutine " in msg and "go.dedis.ch/kyber/v4/proof" in msg:
            ctx.violations.append({"key": "C14/all/concurrent/crash-in-library-goroutine",
                                   "what": "the process running provers / verifiers of package proof (several in flight, made from equal or "
                                           "shared Predicate values) dies with a Go crash trace through the library",
                                   "detail": {"trace_tail": msg[-2500:]}, "driver": "sigma", "args": [str(a) for a in args]})
            return None
        raise


def c14(ctx):
    q = ctx.quick
    b = vh(ctx)
    W = 6
    ex = lambda mode, terms, wraps, name: (lambda: gen(ctx, "Sigma", sig_consts(mode, 2, 2, 2, 2, 2, terms, wraps), name,
                                                       invariants=SIG_INV + ["Emit"], workers=W, timeout=3000))
    sim = lambda mode, num, name: (lambda: gen(ctx, "Sigma", sig_consts(mode, 4, 4, 3, 4, 4, 48), name, invariants=["Emit"],
                                              simulate="num=%d" % num, depth=90))
    both, mini = ("min", "full"), ("min",)
    jobs = [
        # every canonical tree up to 2 branches x 2 And-terms x 2 terms per Rep over 2 scalar variables and 2 bases
        # (quick: at most 4 terms in total; thorough: all 44 205 trees), every branch choice, every single falsification
        ex("sat", 4, both, "C14_sat") if q else ex("sat", 8, mini, "C14_sat"),
        # the same trees (at most 3 / 5 terms) x every transcript item altered, every truncation, every verifier-side
        # change, the two no-knowledge forgers
        ex("mut", 3, both, "C14_mut") if q else ex("mut", 5, mini, "C14_mut"),
        # larger shapes (4 x 4 x 3 over 4 variables, 4 bases) by simulation
        sim("sat", 60 if q else 800, "C14_sim_sat"),
        sim("mut", 60 if q else 800, "C14_sim_mut"),
    ]
    # interactive protocol under a transport fault at round 1, 2 or 3 (honest and falsified provers): a proof that was
    # not completely verified is never reported as accepted
    jobs.append(lambda: gen(ctx, "Sigma", sig_consts("sat", 2, 2, 2, 2, 2, 3 if q else 4, mini, faults=(1, 2, 3)), "C14_fault",
                            invariants=SIG_INV + ["Emit"], workers=W))
    # protocol names of length 0, 1, 63, 64, 65, 200 x the verifier's name differing in the last byte / in byte 65 / being a
    # proper prefix / an extension: rejected whenever the names differ (and accepted under the same name)
    jobs.append(lambda: gen(ctx, "Sigma", sig_consts("name", 2, 2, 2, 2, 2, 2 if q else 3, mini, names=(0, 1, 63, 64, 65, 200)), "C14_names",
                            invariants=SIG_INV + ["Emit"], workers=W))
    # object re-use: the same Prover closure run 2 (thorough: 2 and 4) times, the same Verifier closure checking every
    # proof, a second Prover of the same Predicate value for another branch; hash and deniable mode
    jobs.append(lambda: gen(ctx, "Sigma", sig_consts("sat", 2, 2, 2, 2, 2, 3 if q else 4, both, runs=(2,) if q else (2, 4)), "C14_reuse",
                            invariants=SIG_INV + ["Emit"], workers=W))
    # an Or of 2 or 3 branches NESTED in the top-level Or (the last branches), chosen branch outside or inside it:
    # up to 4 branches of one single-term Rep over 2 variables, every choice, every falsification; and every tampering
    jobs.append(lambda: gen(ctx, "Sigma", sig_consts("sat", 4, 1, 1, 2, 1, 4, mini, nests=(2, 3), runs=(1, 2)), "C14_nest",
                            invariants=SIG_INV + ["Emit"], workers=W))
    jobs.append(lambda: gen(ctx, "Sigma", sig_consts("mut", 4, 1, 1, 2, 1, 4, mini, nests=(3,)), "C14_nest_mut",
                            invariants=SIG_INV + ["Emit"], workers=W))
    if not q:   # trivial Or / And nodes kept ("full" wrapping) on the smaller universes
        jobs += [ex("sat", 5, both, "C14_sat_wraps"), ex("mut", 4, both, "C14_mut_wraps")]
    outs = par(ctx, jobs)
    tr = os.path.join(ctx.tmp, "sigma_ctx_calls.ndjson")
    run_sigma(ctx, ["-in", outs[0], "-max", 4000 if q else 40000, "-deniable", 5 if q else 4, "-trace", tr, "-tracemax", 150 if q else 2000], b)
    run_sigma(ctx, ["-in", outs[1], "-max", 4000 if q else 40000, "-deniable", 5 if q else 4], b)
    tr2 = os.path.join(ctx.tmp, "sigma_ctx_calls_sim.ndjson")
    run_sigma(ctx, ["-in", outs[2], "-max", 800 if q else 12000, "-deniable", 2, "-trace", tr2, "-tracemax", 60 if q else 600], b)
    run_sigma(ctx, ["-in", outs[3], "-max", 800 if q else 12000, "-deniable", 2], b)
    run_sigma(ctx, ["-in", outs[4], "-max", 1500 if q else 8000, "-deniable", 1], b)
    run_sigma(ctx, ["-in", outs[5], "-deniable", 0], b)
    run_sigma(ctx, ["-in", outs[6], "-max", 1500 if q else 12000, "-deniable", 2], b)
    run_sigma(ctx, ["-in", outs[7], "-deniable", 3], b)
    run_sigma(ctx, ["-in", outs[8], "-max", 1500 if q else 8000, "-deniable", 4], b)
    for bh in outs[9:]:
        run_sigma(ctx, ["-in", bh, "-max", 12000, "-deniable", 3], b)
    if ctx.cov["skipped"].get("deniable-session-timeout"):
        raise Broken("%d deniable clique sessions did not terminate within 5 minutes" % ctx.cov["skipped"]["deniable-session-timeout"])
    # code -> spec: the recorded Put / Get / PubRand / PriRand calls of the real provers and verifiers are behaviours of
    # SigmaTrace (commit before challenge, item kinds and counts, private randomness only before the challenge).
    # Extra coverage: a rejection is reported under coverage.extra, it does not change the exit status.
    extra = ctx.cov["extra"].setdefault("sigma_trace", {})
    for name, f in (("exhaustive", tr), ("simulated", tr2)):
        nlines = sum(1 for _ in open(f))
        ok, at, run = ctx.tlc_validate("SigmaTrace", SIGTRACE_CFG, f, name="C14_trace_" + name)
        extra[name] = {"events": nlines, "accepted": ok, "rejected_at": at}
        if ok:
            ctx.cov["traces_validated_against_impl"] += sum(1 for l in open(f) if '"ev":"start"' in l)
        else:
            log("SigmaTrace rejected the recorded context calls at line %s (reported under coverage.extra)" % at)
    if not q:
        # binding demonstration: a challenge drawn before the last commitment must be rejected
        lines = open(tr).read().splitlines()
        i = next(k for k, l in enumerate(lines) if '"PubRand"' in l and k > 20)
        lines[i - 1], lines[i] = lines[i], lines[i - 1]
        bad = os.path.join(ctx.tmp, "sigma_ctx_calls_corrupt.ndjson")
        open(bad, "w").write("\n".join(lines) + "\n")
        ok, at, run = ctx.tlc_validate("SigmaTrace", SIGTRACE_CFG, bad, name="C14_trace_selftest")
        extra["selftest_corrupted_trace_rejected_at"] = at
        if ok:
            raise Broken("self-test: SigmaTrace accepted a trace with the challenge moved before a commitment")
    return ctx.finish(
        "model_checking",
        "case = (predicate tree as data, chosen branch, trivial-node wrapping, falsification | tampering); TLC BFS enumerates every canonical "
        "tree (variables and bases introduced in increasing order) up to 2 Or-branches x 2 And-terms x 2 terms per Rep over 2 scalar variables and "
        "2 bases (quick: <= 4 terms in total) x every branch choice x {nothing, prover's secret x_v wrong, public point of a Rep unrelated}; for trees "
        "with <= 3 (thorough 5) terms x {every transcript item altered, every truncation at an item boundary and one byte into / one byte short of "
        "every item, an honest proof ending in 0x00 bytes cut by exactly those bytes, two no-knowledge forgers, protocol names of length 0/1/63/64/65/200 against a verifier name differing in the last byte / in byte 65 / "
        "a proper prefix / an extension, verifier's base / "
        "point altered, verifier's predicate with another base / a term, And-term or branch dropped / a branch added / And-terms or branches "
        "exchanged}; shapes up to 4 x 4 x 3 over 4 variables and 4 bases by -simulate. Each case is replayed with proof.HashProve/HashVerify and (every "
        "2nd-4th case) with proof.DeniableProver among 2-3 participants over a harness clique context whose router alters participant 0's messages, "
        "and with the clique transport failing for every participant from round 1, 2 or 3 on (trees with <= 3 / 4 terms, honest and falsified provers), "
        "with the same Prover / Verifier closures run 2 (4) times and a second Prover of the same Predicate value for another branch, "
        "on Ed25519, P-256 and BN256 G1; the real proof length must equal the item list the specification derives; distinct = (suite, behaviour, mode)",
        ASSUME_CASES + [
            "every public point is defined from the model's secrets, so branch truth is decided by the model; a falsified point is an unrelated random point",
            "a verifier predicate that is a logically equivalent reordering is not judged; in the interactive protocol a verifier predicate implied by the proven one (last And-term dropped) is not judged (MustDen)",
            "SigmaTrace (commit-before-challenge, item kinds / counts, private randomness before the challenge) is extra coverage and never changes the exit status",
            "TLC enumeration is exhaustive in both tiers; the replay is a (seed, suite)-dependent sample: quick 4000 behaviours per suite of each exhaustive set and 800 of each simulated set, thorough 40000 per suite of each exhaustive set and 12000 of each simulated / full-wrapping set",
        ], exhaustive=False)


PROPS = {"C13": c13, "C14": c14, "C15": c15}
