"""C11 — DKG agreement under faults: spec/DKGPedersen.tla (DistKeyGenerator API level, fresh + resharing),
spec/DKGProtocol.tla (goroutine-driven Protocol), spec/DKGRabin.tla."""
import collections
import json
import os
import subprocess
import threading
import time

import vlib
from vlib import Broken, cfg, log

REQ = ["Agreement", "SharesOnPoly", "UnjustifiedDealerOut", "HonestHolderStays", "HonestDealerStays",
       "KeyUnchanged", "AllHonestAllFinish", "NoHonestError"]

ASSUME = [
    "packet signatures are unforgeable: a faulty party never speaks under an honest party's index (every hand-made bundle is signed with the faulty party's own key and checked with VerifyPacketSignature)",
    "the fault menu is finite (spec/DKGPedersen.tla DealMenu/RespMenu/JustMenu; DKGProtocol.tla; DKGRabin.tla); an abstract 'invalid share' is concretised in 5 ways chosen per behaviour from the seed",
    "rounds are synchronous: every bundle of a phase reaches every honest node before that node's phase call / tick (orders inside a phase are enumerated, cross-phase delays are not)",
    "API level: every node is handed the same list per phase (broadcast channel), an honest sender contributes one bundle per phase",
    "Ed25519 suite only; random tapes of honest nodes are seeded",
]


JOPT = "-XX:ParallelGCThreads=2"


def ped_consts(shapes=("fresh",), n=3, ts=(2,), fasts=(False, True), maxf=1, menu="full", order="all", rec=False, leavefix=True):
    return {"Shapes": list(shapes), "N": n, "Ts": list(ts), "Fasts": list(fasts), "MaxF": maxf, "MenuLvl": menu,
            "OrdMode": order, "Rec": rec, "LeaveFix": leavefix}


class Par:
    """runs jobs on threads (TLC and the replayer are subprocesses); first exception is re-raised.
    VERIF_C11_ONLY=<substring>[,<substring>...] restricts the jobs by name (development / mutation runs only)."""

    def __init__(self, width):
        self.sem = threading.Semaphore(width)
        self.threads, self.errors = [], []
        self.only = [x for x in os.environ.get("VERIF_C11_ONLY", "").split(",") if x]

    def go(self, fn, *a, **k):
        names = [x for x in a if isinstance(x, str)]
        if self.only and not any(o in nm for o in self.only for nm in names):
            return
        def run():
            with self.sem:
                try:
                    fn(*a, **k)
                except BaseException as e:  # noqa
                    self.errors.append(e)
        th = threading.Thread(target=run)
        th.start()
        self.threads.append(th)

    def wait(self):
        for th in self.threads:
            th.join()
        if self.errors:
            raise self.errors[0]


def ped_run(ctx, name, consts, module="DKGPedersen", spec="Spec", invariants=REQ, emit=True, simulate=None, depth=None,
            workers=2, timeout=1700):
    """one TLC run: model-checks the requirement invariants and (emit) prints every complete behaviour"""
    c = dict(consts, Rec=bool(emit))
    out = os.path.join(ctx.tmp, name + ".ndjson") if emit else None
    run = ctx.tlc(module, cfg(spec=spec, constants=c, invariants=list(invariants) + (["Emit"] if emit else [])),
                  name="C11_" + name, collect=out, simulate=simulate, depth=depth,
                  workers=(1 if simulate else workers), java_opts=JOPT, timeout=timeout)
    if emit and run["behaviours"] == 0:
        raise Broken("generator %s produced no behaviours" % name)
    return out


_VH_LOCK = threading.Lock()


def run_vh(ctx, *a, **k):
    """ctx.run_vh names its result file after a millisecond stamp; jobs run on threads, so their starts are spaced"""
    with _VH_LOCK:
        time.sleep(0.01)
    return ctx.run_vh(*a, **k)


def gen_replay(ctx, binary, driver, name, consts, max_replay, **kw):
    bh = ped_run(ctx, name, consts, **kw)
    run_vh(ctx, driver, ["-in", bh, "-max", max_replay], binary=binary)


# ---------- code -> spec: traces recorded by the `verif` hooks of share/dkg/pedersen ----------
TRACE_CFG = cfg(spec="TraceSpec", constants=dict(ped_consts(("fresh",), 3, (2,), (False,), maxf=0, menu="small", order="one")),
                constraint="Mark", postcondition="TraceAccepted")


def prep_trace(src, dst, corrupt=False):
    """groups the recorded events by object, numbers the public polynomials per dealer (duplicate vs conflicting
    bundle), separates objects by `reset` events; corrupt=True flips one logged status (binding self-test)"""
    objs = collections.OrderedDict()
    for line in open(src):
        line = line.strip()
        if line:
            e = json.loads(line)
            objs.setdefault(e["obj"], []).append(e)
    out, nobj, flipped = [], 0, None
    for obj, evs in objs.items():
        evs.sort(key=lambda e: e["seq"])
        if evs[0]["ev"] != "New":
            continue
        nobj += 1
        fp = {}
        for e in evs:
            if e["ev"] == "ProcessDeals":
                for b in e["args"]["bundles"]:
                    m = fp.setdefault(b["from"], {})
                    b["poly"] = 0 if b.get("nil") else m.setdefault(b.get("pub", ""), len(m) + 1)
            if corrupt and flipped is None and nobj > 3 and e["ev"] == "ProcessResponses" and e["state"]["st"]:
                row = e["state"]["st"][-1]["row"]
                row[0]["v"] = "C" if row[0]["v"] == "S" else "S"
                flipped = len(out) + 1
            out.append(e)
        out.append({"obj": obj, "seq": 0, "ev": "reset", "args": {}, "state": {}})
    with open(dst, "w") as f:
        for e in out:
            f.write(json.dumps(e) + "\n")
    return nobj, len(out), flipped


def validate_trace(ctx, name, raw, selftest=False):
    if not os.path.exists(raw) or os.path.getsize(raw) == 0:
        raise Broken("no trace recorded for %s (is the harness built with the verif tag?)" % name)
    tf = os.path.join(ctx.tmp, name + ".prep.ndjson")
    nobj, nev, _ = prep_trace(raw, tf)
    ok, at, _ = ctx.tlc_validate("DKGPedersenTrace", TRACE_CFG, tf, name="C11_trace_" + name)
    if ok:
        ctx.cov["traces_validated_against_impl"] += nobj
        ctx.cov["extra"].setdefault("traces", []).append({"source": name, "objects": nobj, "events": nev, "accepted": True})
    else:
        # the trace spec is implementation-shaped: a rejected trace is drift (reported, not a verdict)
        ev = None
        if at:
            ev = open(tf).read().splitlines()[at - 1][:600]
        log("trace %s REJECTED at line %s: %s" % (name, at, ev))
        ctx.cov["extra"].setdefault("traces", []).append({"source": name, "objects": nobj, "events": nev, "accepted": False,
                                                         "rejected_at": at, "event": ev})
    if selftest:
        bad = os.path.join(ctx.tmp, name + ".bad.ndjson")
        _, _, flipped = prep_trace(raw, bad, corrupt=True)
        if flipped is not None and ok:
            ok2, at2, _ = ctx.tlc_validate("DKGPedersenTrace", TRACE_CFG, bad, name="C11_trace_selftest_" + name)
            if ok2 or at2 != flipped:
                raise Broken("binding self-test failed: corrupted trace (line %s) accepted / rejected elsewhere (%s)" % (flipped, at2))
            ctx.cov["extra"].setdefault("traces", []).append({"source": name + " (one status flipped)", "rejected_at": at2, "accepted": False,
                                                             "selftest": "ok"})


def trace_repo_tests(ctx, name="trace_repo_tests", selftest=False):
    """the repository's own DKG tests, run with the hooks on, must be behaviours of the spec"""
    raw = os.path.join(ctx.tmp, "repo-tests.trace.ndjson")
    env = vlib.go_env()
    env["VERIF_TRACE_FILE"] = raw
    p = subprocess.run([vlib.go_bin(), "test", "-count=1", "-tags", "verif", "./share/dkg/pedersen/"], cwd=vlib.REPO, env=env,
                       capture_output=True, text=True, timeout=1500)
    if p.returncode != 0:
        log("repository DKG tests fail with the verif tag; their traces are not validated:\n" + (p.stdout + p.stderr)[-800:])
        ctx.cov["skipped"]["repo-dkg-tests-failed"] = 1
        return
    validate_trace(ctx, name, raw, selftest=selftest)


def trace_replays(ctx, binary, name, consts, n, **kw):
    """honest generators driven through faulty behaviours by the replayer, recorded by the same hooks"""
    bh = ped_run(ctx, name, consts, **kw)
    raw = os.path.join(ctx.tmp, name + ".trace.ndjson")
    run_vh(ctx, "api", ["-in", bh, "-max", n], binary=binary, env={"VERIF_TRACE_FILE": raw})
    validate_trace(ctx, name, raw)


PROTO_INV = ["ReqExceptLateConflict", "NoLateConflictInRegular"]
RABIN_INV = ["ReqExceptLeads"]


def proto_consts(n, ts, menu, order, foci, fasts=(False, True), shapes=("fresh",)):
    return dict(ped_consts(shapes, n, ts, fasts, maxf=1, menu=menu, order=order), Foci=list(foci))


def rabin_consts(n, ts, order):
    return {"N": n, "Ts": list(ts), "MaxF": 1, "Rec": False, "OrdMode": order}


def c11(ctx):
    q = ctx.quick
    binary = ctx.build(pkg="./cmd/vh-dkg")
    par = Par(10 if q else 8)
    f3 = ped_consts(("fresh",), 3, (2, 3))
    f4 = ped_consts(("fresh",), 4, (3, 4))
    shapes = ("same", "overlap", "disjoint", "grow", "shrink", "shrink3")
    rs = ped_consts(shapes, 3, (2,), maxf=2)
    raise5 = ped_consts(("raise5",), 3, (2,), maxf=2, menu="fc")
    P = dict(module="DKGProtocol", spec="PSpec", invariants=PROTO_INV)
    R = dict(module="DKGRabin", invariants=RABIN_INV)
    if q:
        # every BFS run below is exhaustive over its menu and checks the requirement invariants while it emits behaviours
        par.go(gen_replay, ctx, binary, "api", "fresh_n3", dict(f3, OrdMode="one"), 3000, workers=3)
        par.go(gen_replay, ctx, binary, "api", "fresh_n4_reg", dict(f4, OrdMode="one", MenuLvl="small", Fasts=[False]), 1200, workers=3)
        par.go(gen_replay, ctx, binary, "api", "fresh_n4_fast", dict(f4, OrdMode="one", MenuLvl="small", Fasts=[True]), 1200, workers=3)
        par.go(gen_replay, ctx, binary, "api", "reshare_honest", dict(rs, OrdMode="glob", MaxF=0), 0)
        par.go(gen_replay, ctx, binary, "api", "reshare_sim", dict(rs, OrdMode="two", MenuLvl="small"), 0,
               simulate="num=150", depth=14)
        par.go(gen_replay, ctx, binary, "proto", "proto_n3_eq", proto_consts(3, (2,), "eq", "few", ("deal",), fasts=(True,)), 1200, **P)
        par.go(gen_replay, ctx, binary, "proto", "proto_n3_sim", proto_consts(3, (2,), "proto", "few", ("deal", "resp", "just")), 800,
               simulate="num=50", depth=12, **P)
        par.go(gen_replay, ctx, binary, "rabin", "rabin_n3", rabin_consts(3, (2, 3), "two"), 1500, **R)
        par.go(gen_replay, ctx, binary, "api", "fresh_n5_sim", ped_consts(("fresh",), 5, (3, 4), maxf=2, menu="small", order="two"), 0,
               simulate="num=60", depth=14)
        par.go(gen_replay, ctx, binary, "api", "fresh_n6_sim", ped_consts(("fresh",), 6, (4, 5), maxf=2, menu="small", order="two"), 0,
               simulate="num=40", depth=14)
        # threshold boundaries: resharing that raises the threshold (2-of-3 -> 3-of-5) with up to two false-complaining
        # joiners (OldThreshold <= complaints < Threshold); rabin at t = n (exactly t qualified dealers)
        par.go(gen_replay, ctx, binary, "api", "reshare_raise5", dict(raise5, OrdMode="one"), 0)
        par.go(gen_replay, ctx, binary, "rabin", "rabin_n4t4", rabin_consts(4, (4,), "two"), 0, **R)
        # Protocol on resharing shapes (old != new group sizes, leaving and joining members), signature verification on,
        # per-node orders in the justification round (all replayed) and in the deal / response rounds (sampled)
        pshapes = ("overlap", "shrink3", "grow")
        par.go(gen_replay, ctx, binary, "proto", "proto_reshare_just", proto_consts(3, (2,), "fcp", "min", ("just",), shapes=pshapes), 0, **P)
        # two equivocating dealers at n=5,t=3 (regular mode): which one is caught first at each node, then duplicates
        par.go(gen_replay, ctx, binary, "proto", "proto_n5_eq2",
               dict(proto_consts(5, (3,), "eq2", "eq2", ("deal",), fasts=(False,)), MaxF=2), 0, **P)
        par.go(gen_replay, ctx, binary, "proto", "proto_reshare_dr", proto_consts(3, (2,), "fcp", "min", ("deal", "resp"), shapes=pshapes), 1500, **P)
        par.go(trace_repo_tests, ctx, "trace_repo_tests")
        par.go(trace_replays, ctx, binary, "trace_n4_sim", ped_consts(("fresh", "overlap", "disjoint"), 4, (3,), maxf=1, menu="small", order="two"), 0,
               simulate="num=40", depth=14)
    else:
        TO = dict(timeout=3400)
        # model checking with every delivery order
        par.go(ped_run, ctx, "mc_fresh_n3", dict(f3, OrdMode="all"), emit=False, **TO)
        par.go(ped_run, ctx, "mc_fresh_n4", dict(f4, OrdMode="all"), emit=False, workers=4, **TO)
        par.go(ped_run, ctx, "mc_reshare", dict(rs, OrdMode="two"), emit=False, workers=4, **TO)
        par.go(ped_run, ctx, "mc_proto_n3", proto_consts(3, (2, 3), "proto", "all", ("deal", "resp", "just")), emit=False, workers=4, **P, **TO)
        par.go(ped_run, ctx, "mc_rabin_n3", rabin_consts(3, (2, 3), "all"), emit=False, **R, **TO)
        # behaviours for the real code
        par.go(gen_replay, ctx, binary, "api", "fresh_n3", dict(f3, OrdMode="two"), 0, **TO)
        par.go(gen_replay, ctx, binary, "api", "fresh_n4", dict(f4, OrdMode="glob"), 40000, **TO)
        par.go(gen_replay, ctx, binary, "api", "reshare", dict(rs, OrdMode="one", MenuLvl="small", MaxF=1), 20000, **TO)
        par.go(gen_replay, ctx, binary, "api", "reshare_sim", dict(rs, OrdMode="two", MenuLvl="small"), 0,
               simulate="num=400", depth=14, **TO)
        par.go(gen_replay, ctx, binary, "api", "reshare_raise5", dict(raise5, OrdMode="two"), 12000, **TO)
        par.go(gen_replay, ctx, binary, "api", "reshare_raise5_sim", dict(raise5, OrdMode="two", MenuLvl="small"), 0,
               simulate="num=200", depth=16, **TO)
        par.go(gen_replay, ctx, binary, "api", "fresh_n5_fc", ped_consts(("fresh",), 5, (3,), maxf=2, menu="fc", order="one"), 6000, **TO)
        par.go(gen_replay, ctx, binary, "proto", "proto_n3_eq", proto_consts(3, (2,), "eq", "all", ("deal",), fasts=(True,)), 12000, **P, **TO)
        par.go(gen_replay, ctx, binary, "proto", "proto_n3_eq_rj", proto_consts(3, (2,), "eq", "few", ("resp", "just"), fasts=(True,)), 6000, **P, **TO)
        par.go(gen_replay, ctx, binary, "proto", "proto_n3_sim", proto_consts(3, (2,), "proto", "few", ("deal", "resp", "just")), 0,
               simulate="num=200", depth=12, **P, **TO)
        par.go(gen_replay, ctx, binary, "proto", "proto_n4_eq", proto_consts(4, (3,), "eq", "min", ("deal",), fasts=(True,)), 4000, **P, **TO)
        par.go(gen_replay, ctx, binary, "proto", "proto_n5_eq2",
               dict(proto_consts(5, (3,), "eq2all", "eq2", ("deal",)), MaxF=2), 6000, **P, **TO)
        par.go(gen_replay, ctx, binary, "proto", "proto_reshare", proto_consts(3, (2,), "fc", "min", ("deal", "resp", "just"),
                                                                              shapes=("overlap", "shrink3", "grow", "same", "shrink")), 0, **P, **TO)
        par.go(gen_replay, ctx, binary, "rabin", "rabin_n3", rabin_consts(3, (2, 3), "two"), 0, **R, **TO)
        par.go(gen_replay, ctx, binary, "rabin", "rabin_n4", rabin_consts(4, (3, 4), "two"), 8000, **R, **TO)
        for n, ts, num in ((5, (3, 4), 400), (6, (4, 5), 300), (7, (4, 5), 120), (8, (5, 6), 80), (9, (5, 6), 60)):
            par.go(gen_replay, ctx, binary, "api", "fresh_n%d_sim" % n,
                   ped_consts(("fresh",), n, ts, maxf=n - min(ts), menu="small", order="two"), 0,
                   simulate="num=%d" % num, depth=20, **TO)
    if not q:
        par.go(trace_repo_tests, ctx, "trace_repo_tests", selftest=True)
        par.go(trace_replays, ctx, binary, "trace_n4_sim", ped_consts(("fresh",) + shapes, 4, (3,), maxf=1, menu="small", order="two"), 0,
               simulate="num=300", depth=14)
    par.wait()
    return ctx.finish(
        "model_checking",
        "behaviour = (set of faulty parties, each faulty party's menu entry per phase, delivery order per phase: one list for "
        "all nodes at the DistKeyGenerator API, one list per node with repeats at the Protocol level and for the Rabin "
        "reconstruct commits); TLC enumerates them exhaustively for n<=4 (menus and orders as stated per run in tlc_runs) and "
        "samples n>=5 by -simulate; each is replayed on n real objects (DistKeyGenerator / Protocol goroutines / rabin "
        "DistKeyGenerator) with the faulty parties' bundles built and signed by the harness; distinct = (configuration, behaviour, "
        "concretisation of the invalid share); after every phase call the emitted responses/justifications and the error class are "
        "compared with TLC's prediction (drift), and the requirement observables are decided with real crypto",
        ASSUME, exhaustive=False)


PROPS = {"C11": c11}
