#!/usr/bin/env python3
"""collect_seeded.py <prop> <mutout-dir>: copy confirmed seeded mutations into /verif/seeded/<prop>-m<i>/"""
import json, os, shutil, sys, glob
prop, outdir = sys.argv[1:3]
prefix = sys.argv[3] if len(sys.argv) > 3 else ""
for m in sorted(glob.glob(os.path.join(outdir, "m*"))):
    if not os.path.exists(os.path.join(m, "result.json")):
        continue
    name = "%s-%s%s" % (prop, prefix, os.path.basename(m))
    dst = os.path.join("/verif/seeded", name)
    os.makedirs(dst, exist_ok=True)
    shutil.copyfile(os.path.join(m, "patch.diff"), os.path.join(dst, "patch.diff"))
    for f in os.listdir(m):
        if f.startswith("demo"):
            src = os.path.join(m, f)
            if os.path.isdir(src):
                shutil.copytree(src, os.path.join(dst, f), dirs_exist_ok=True)
            else:
                shutil.copyfile(src, os.path.join(dst, f))
    meta = json.load(open(os.path.join(m, "meta.json")))
    res = json.load(open(os.path.join(m, "result.json")))
    old = {}
    if os.path.exists(os.path.join(dst, "meta.json")):
        old = json.load(open(os.path.join(dst, "meta.json")))
    out = {"id": name, "property": prop, "files": meta.get("files"), "what": meta.get("what"), "needs": meta.get("needs"),
           "author_ran": meta.get("existing_tests_run"), "demo_cmd": meta.get("demo_cmd"),
           "confirmed_by_lead": {"patch_applies": "apply_error" not in res,
                                 "demo_rc_without_patch": res.get("demo_without_patch_rc"),
                                 "demo_rc_with_patch": res.get("demo_with_patch_rc"),
                                 "note": "demo commands ending in `; rm -f ...` report the rm status; see demo_with_patch_tail",
                                 "demo_with_patch_tail": res.get("demo_with_patch_tail", "")[-300:]},
           "checks_run": res.get("checks"),
           "history": old.get("history", [])}
    json.dump(out, open(os.path.join(dst, "meta.json"), "w"), indent=1)
    print(name, {k: v["rc"] for k, v in (res.get("checks") or {}).items()})
