"""Shared orchestration for /verif/check: TLC runner, harness build, evidence
writer, known-findings classification.  Exit codes: 0 held, 1 violation
(VIOLATION line printed), 2 machinery problem (never a verdict)."""
import hashlib
import json
import os
import re
import shutil
import subprocess
import sys
import tempfile
import time

ROOT = os.path.dirname(os.path.dirname(os.path.abspath(__file__)))
REPO = os.environ.get("VERIF_REPO", "/repo")
SPEC = os.path.join(ROOT, "spec")
HARNESS = os.path.join(ROOT, "harness")
NCPU = os.cpu_count() or 4


class Broken(Exception):
    """machinery failure: exit 2"""


def log(*a):
    print("[check]", *a, file=sys.stderr, flush=True)


def go_bin():
    cands = []
    try:
        mc = subprocess.run(["go", "env", "GOMODCACHE"], capture_output=True, text=True, timeout=30,
                            env=dict(os.environ, GOFLAGS="-mod=mod")).stdout.strip()
        if mc:
            cands.append(os.path.join(mc, "golang.org/toolchain@v0.0.1-go1.25.0.linux-amd64/bin/go"))
    except Exception:
        pass
    cands.append("/root/go/pkg/mod/golang.org/toolchain@v0.0.1-go1.25.0.linux-amd64/bin/go")
    for c in cands:
        if os.path.exists(c):
            return c
    for n in ("go1.26", "go"):
        p = shutil.which(n)
        if p:
            return p
    raise Broken("no go toolchain")


def go_env():
    e = dict(os.environ)
    e.update(GOTOOLCHAIN="local", GOFLAGS="-mod=mod", GOPROXY="off", GONOSUMDB="*", GONOSUMCHECK="1")
    e.pop("GOSUMDB", None)
    return e


class Ctx:
    def __init__(self, prop, tier, seed):
        self.prop, self.tier, self.seed = prop, tier, seed
        self.t0 = time.time()
        self.tmp = tempfile.mkdtemp(prefix="verif-%s-" % prop)
        self.vh = None
        self.bins = {}   # binary path -> (pkg, tags, race)
        self.cov = {"states": 0, "transitions": 0, "traces_validated_against_impl": 0, "samples": [],
                    "evaluations": 0, "distinct_nontrivial": 0, "tlc_runs": [], "skipped": {}, "extra": {}}
        self.violations = []   # dicts: key, what, detail, driver info
        self.assumptions = []
        self.rules = []

    def cleanup(self):
        shutil.rmtree(self.tmp, ignore_errors=True)

    @property
    def quick(self):
        return self.tier == "quick"

    # ---------- harness ----------
    def build(self, tags="verif", race=False, pkg="./cmd/vh", out=None):
        """builds a harness command against REPO's current working tree; cached per (pkg, tags, race) within this check run"""
        nm = os.path.basename(pkg) + ("-race" if race else "") + ("-" + tags.replace(",", "_") if tags != "verif" else "")
        out = out or os.path.join(self.tmp, nm)
        if os.path.exists(out):
            return out
        shutil.copyfile(os.path.join(REPO, "go.sum"), os.path.join(HARNESS, "go.sum"))
        cmd = [go_bin(), "build", "-tags", tags, "-o", out]
        if REPO != "/repo":   # checks can be pointed at a scratch worktree: VERIF_REPO=/tmp/wt ./check Cxx
            mf = os.path.join(self.tmp, "go.alt.mod")
            txt = open(os.path.join(HARNESS, "go.mod")).read().replace("=> /repo", "=> " + REPO)
            open(mf, "w").write(txt)
            shutil.copyfile(os.path.join(REPO, "go.sum"), os.path.join(self.tmp, "go.alt.sum"))
            cmd += ["-modfile", mf]
        if race:
            cmd.append("-race")
        cmd.append(pkg)
        t = time.time()
        p = subprocess.run(cmd, cwd=HARNESS, env=go_env(), capture_output=True, text=True, timeout=1500)
        if p.returncode != 0:
            raise Broken("harness build failed:\n" + p.stderr[-3000:])
        log("built %s in %.1fs" % (nm, time.time() - t))
        self.bins[out] = (pkg, tags, race)
        return out

    def run_vh(self, driver, args, binary=None, timeout=3000, env=None):
        """runs a harness driver, merges its result into coverage, returns the result dict"""
        binary = binary or self.build()
        if driver == "alg" and "-firstuse" not in [str(a) for a in args]:
            # successive alg runs of one check start the process with a different first use of the group constants
            self._firstuse = getattr(self, "_firstuse", self.seed) + 1
            args = list(args) + ["-firstuse", self._firstuse % 4]
        out = os.path.join(self.tmp, "res-%s-%d.json" % (driver, len(self.cov["tlc_runs"]) * 100 + len(self.violations) + int(time.time() * 1000) % 100000))
        cmd = [binary, driver, "-prop", self.prop, "-seed", str(self.seed), "-tier", self.tier, "-out", out] + [str(a) for a in args]
        t = time.time()
        e = dict(os.environ)
        if env:
            e.update(env)
        p = subprocess.run(cmd, capture_output=True, text=True, timeout=timeout, env=e)
        if p.returncode != 0 or not os.path.exists(out):
            raise Broken("driver %s failed (rc=%s): %s" % (driver, p.returncode, (p.stderr or p.stdout)[-3000:]))
        res = json.load(open(out))
        res["_stderr"] = p.stderr
        log("driver %s: %d evaluations, %d distinct, %d violation keys, %.1fs" % (
            driver, res["evaluations"], res["distinct_nontrivial"], len(res["extra"].get("violation_counts", {})), time.time() - t))
        self.merge(res, driver, args, self.bins.get(binary, ("./cmd/vh", "verif", False)))
        return res

    def merge(self, res, driver, args, binfo=("./cmd/vh", "verif", False)):
        c = self.cov
        c["evaluations"] += res["evaluations"]
        c["distinct_nontrivial"] += res["distinct_nontrivial"]
        c["traces_validated_against_impl"] += res.get("traces", 0)
        for s in res.get("samples", []):
            if len(c["samples"]) < 4:
                c["samples"].append(s)
        for k, v in (res.get("skipped") or {}).items():
            c["skipped"][k] = c["skipped"].get(k, 0) + v
        if res.get("rule"):
            self.rules.append(res["rule"])
        ex = dict(res.get("extra") or {})
        ex.pop("violation_counts", None)
        if ex:
            c["extra"].setdefault(driver, []).append(ex)
        for v in res.get("violations", []):
            v = dict(v)
            v["driver"] = driver
            v["args"] = [str(a) for a in args]
            v["pkg"], v["tags"], v["race"] = binfo
            self.violations.append(v)

    # ---------- TLC ----------
    def tlc(self, module, cfg_text, name=None, workers=None, simulate=None, depth=None, timeout=1700,
            collect=None, extra=None, java_opts=None, env=None, allow_violation=False):
        """Runs TLC on spec/<module>.tla with the given cfg text.
        collect: path to write the JSON behaviours printed as <<"TRACE", "...">> lines.
        Returns dict(states, distinct, depth, ok, violated, out_tail, behaviours)."""
        name = name or module
        work = os.path.join(self.tmp, "tlc-" + name + "-%d" % len(self.cov["tlc_runs"]))
        os.makedirs(work, exist_ok=True)
        for f in os.listdir(SPEC):
            if f.endswith(".tla"):
                shutil.copyfile(os.path.join(SPEC, f), os.path.join(work, f))
        cfg = os.path.join(work, name + ".cfg")
        open(cfg, "w").write(cfg_text)
        cmd = ["tlc", "-workers", str(workers or NCPU), "-metadir", os.path.join(work, "meta"), "-config", cfg]
        if simulate:
            cmd += ["-simulate", simulate]
            if depth:
                cmd += ["-depth", str(depth)]
            cmd += ["-seed", str(self.seed)]
        if extra:
            cmd += extra
        cmd.append(module + ".tla")
        e = dict(os.environ)
        e["JAVA_TOOL_OPTIONS"] = ("-Xmx%s " % os.environ.get("VERIF_TLC_HEAP", "8g")) + (java_opts or "")
        if env:
            e.update(env)
        t = time.time()
        nb = 0
        tail = []
        fout = open(collect, "w") if collect else None
        pfx = '<<"TRACE", '
        epfx = '<<"EDGE", '
        try:
            p = subprocess.Popen(["timeout", str(timeout)] + cmd, cwd=work, env=e, stdout=subprocess.PIPE,
                                 stderr=subprocess.STDOUT, text=True, bufsize=1 << 20)
            for line in p.stdout:
                if line.startswith(pfx) or line.startswith(epfx):
                    if fout:
                        s = line.rstrip("\n")
                        s = s[len(pfx) if line.startswith(pfx) else len(epfx):-2]
                        try:
                            fout.write(json.loads(s) + "\n")
                            nb += 1
                        except Exception:
                            pass
                    continue
                tail.append(line)
                if len(tail) > 400:
                    del tail[:200]
            p.wait()
        finally:
            if fout:
                fout.close()
        text = "".join(tail)
        rc = p.returncode
        m = re.search(r"(\d+) states generated, (\d+) distinct states found", text)
        states = int(m.group(2)) if m else 0
        gen = int(m.group(1)) if m else 0
        if simulate and not m:
            # simulation mode prints different statistics
            m2 = re.search(r"(\d+) states checked", text)
            gen = states = int(m2.group(1)) if m2 else 0
        md = re.search(r"depth of the complete state graph search is (\d+)", text)
        violated = rc in (11, 12, 13) or (rc == 10 and "Postcondition" in text)
        run = {"name": name, "module": module, "states": states, "transitions": gen, "depth": int(md.group(1)) if md else None,
               "behaviours": nb, "wall_s": round(time.time() - t, 1), "mode": "simulate" if simulate else "bfs"}
        self.cov["tlc_runs"].append(run)
        self.cov["states"] += states
        self.cov["transitions"] += gen
        log("tlc %s: %d distinct / %d generated, %d behaviours, rc=%s, %.1fs" % (name, states, gen, nb, rc, time.time() - t))
        if rc == 124:
            raise Broken("TLC timeout on %s" % name)
        if violated and not allow_violation:
            raise Broken("specification %s violates its own properties (spec defect, not a verdict):\n%s" % (name, text[-2500:]))
        if rc != 0 and not violated:
            raise Broken("TLC error on %s (rc=%s):\n%s" % (name, rc, text[-2500:]))
        run["violated"] = violated
        run["tail"] = text[-1500:] if violated else ""
        m = re.search(r'"REJECTED_AT", (\d+)', text)
        run["rejected_at"] = int(m.group(1)) if m else None
        return run

    def tlc_validate(self, module, cfg_text, trace_file, name=None, timeout=1700):
        """Trace validation (code -> spec): the trace spec reads IOEnv.TRACE_FILE with ndJsonDeserialize and
        has `POSTCONDITION TraceAccepted`, where TraceAccepted prints <<"REJECTED_AT", l>> (l = 1-based index of
        the first trace line no behaviour of the spec explains) before being FALSE.
        Returns (accepted, rejected_at, run)."""
        run = self.tlc(module, cfg_text, name=name or (module + "_validate"), workers=1, timeout=timeout,
                       env={"TRACE_FILE": trace_file}, java_opts="-Dtlc2.tool.queue.IStateQueue=StateDeque",
                       allow_violation=True)
        return (not run["violated"]), run.get("rejected_at"), run

    # ---------- verdict ----------
    def finish(self, level, level_rule, assumptions=None, exhaustive=None):
        known = {}
        kf = os.path.join(ROOT, "known_findings.json")
        if os.path.exists(kf):
            for ent in json.load(open(kf)).get("findings", []):
                if ent.get("status") == "known" and ent.get("property") == self.prop:
                    known[ent["key"]] = ent
        new, seen_known = [], {}
        for v in self.violations:
            ent = match_known(known, v["key"])
            if ent:
                seen_known[ent["key"]] = ent
            else:
                new.append(v)
        for k, ent in sorted(seen_known.items()):
            print("KNOWN-FINDING: property=%s %s — %s" % (self.prop, k, ent.get("what", "")))
        rc = 0
        printed = set()
        os.makedirs(os.path.join(ROOT, "out", "replay"), exist_ok=True)
        for v in new:
            if v["key"] in printed:
                continue
            printed.add(v["key"])
            h = hashlib.sha1(v["key"].encode()).hexdigest()[:10]
            path = os.path.join(ROOT, "out", "replay", "%s-%s.json" % (self.prop, h))
            json.dump({"property": self.prop, "key": v["key"], "what": v["what"], "driver": v.get("driver"),
                       "args": v.get("args"), "pkg": v.get("pkg", "./cmd/vh"), "tags": v.get("tags", "verif"),
                       "race": v.get("race", False), "seed": self.seed, "tier": self.tier, "detail": v.get("detail")},
                      open(path, "w"), indent=1, default=str)
            print("VIOLATION property=%s replay=%s" % (self.prop, path))
            print("  key=%s :: %s" % (v["key"], v["what"]))
            rc = 1
        c = self.cov
        cov = {
            "states": c["states"], "transitions": c["transitions"],
            "traces_validated_against_impl": c["traces_validated_against_impl"],
            "evaluations": c["evaluations"], "distinct_nontrivial": c["distinct_nontrivial"],
            "rule": level_rule + (" | " + " | ".join(self.rules) if self.rules else ""),
            "samples": c["samples"] or [],
            "tlc_runs": c["tlc_runs"], "skipped": c["skipped"], "extra": c["extra"],
            "known_findings_seen": sorted(seen_known.keys()),
        }
        if exhaustive is not None:
            cov["exhaustive"] = exhaustive
        ev = {"property_id": self.prop, "tier": self.tier, "seed": self.seed, "level": level, "coverage": cov,
              "assumptions": (assumptions or []) + self.assumptions, "wall_s": round(time.time() - self.t0, 1),
              "violations": len(printed)}
        # runs against a scratch worktree (VERIF_REPO) must not overwrite the evidence of /repo
        evdir = os.path.join(ROOT, "evidence") if REPO == "/repo" else os.path.join(ROOT, "out", "evidence-scratch")
        os.makedirs(evdir, exist_ok=True)
        json.dump(ev, open(os.path.join(evdir, self.prop + ".json"), "w"), indent=1, default=str)
        if rc == 0 and (cov["states"] < 1 or cov["evaluations"] < 1 or not cov["samples"]):
            raise Broken("nothing was explored (states=%s evaluations=%s)" % (cov["states"], cov["evaluations"]))
        log("%s %s: %s in %.1fs" % (self.prop, self.tier, "HELD" if rc == 0 else "VIOLATED", time.time() - self.t0))
        return rc


def match_known(known, key):
    if key in known:
        return known[key]
    for k, ent in known.items():
        if "*" in k and _glob(k, key):
            return ent
    return None


def _glob(pat, key):
    """`*` in a known-finding key matches any run of characters (nothing else is special)"""
    parts = pat.split("*")
    if not key.startswith(parts[0]):
        return False
    pos = len(parts[0])
    for mid in parts[1:-1]:
        i = key.find(mid, pos)
        if i < 0:
            return False
        pos = i + len(mid)
    return len(key) - pos >= len(parts[-1]) and key.endswith(parts[-1])


def cfg(spec="Spec", constants=None, invariants=(), properties=(), view=None, constraint=None,
        action_constraint=None, deadlock=False, init=None, next_=None, postcondition=None):
    lines = []
    if init and next_:
        lines += ["INIT " + init, "NEXT " + next_]
    else:
        lines.append("SPECIFICATION " + spec)
    if constants:
        lines.append("CONSTANTS")
        for k, v in constants.items():
            lines.append("  %s = %s" % (k, tla(v)))
    if invariants:
        lines.append("INVARIANTS " + " ".join(invariants))
    if properties:
        lines.append("PROPERTIES " + " ".join(properties))
    if view:
        lines.append("VIEW " + view)
    if constraint:
        lines.append("CONSTRAINT " + constraint)
    if action_constraint:
        lines.append("ACTION_CONSTRAINT " + action_constraint)
    if postcondition:
        lines.append("POSTCONDITION " + postcondition)
    lines.append("CHECK_DEADLOCK " + ("TRUE" if deadlock else "FALSE"))
    return "\n".join(lines) + "\n"


def tla(v):
    if isinstance(v, bool):
        return "TRUE" if v else "FALSE"
    if isinstance(v, int):
        return str(v)
    if isinstance(v, str):
        if v.startswith("@"):      # raw TLA expression / model value
            return v[1:]
        return '"%s"' % v
    if isinstance(v, (list, tuple, set, frozenset)):
        return "{" + ", ".join(tla(x) for x in v) + "}"
    raise ValueError(v)
