#!/usr/bin/env python3
"""Regenerates the generated tables of DESIGN.md (between <!-- BEGIN:x --> / <!-- END:x --> markers)
from known_findings.json and seeded/*/meta.json."""
import json, glob, os, re
ROOT = os.path.dirname(os.path.dirname(os.path.abspath(__file__)))

def findings():
    d = json.load(open(os.path.join(ROOT, "known_findings.json")))["findings"]
    out = ["| status | property | key | commit | what |", "|---|---|---|---|---|"]
    for e in sorted(d, key=lambda e: (e["status"] != "known", e["property"], e["key"])):
        out.append("| %s | %s | `%s` | %s | %s |" % (e["status"], e["property"], e["key"], e.get("commit", "—"), e["what"].replace("|", "\\|")))
    return "\n".join(out)

def seeded():
    out = ["| id | files | what it needs to manifest | result of `./check` (quick unless noted) |", "|---|---|---|---|"]
    for f in sorted(glob.glob(os.path.join(ROOT, "seeded", "*", "meta.json"))):
        m = json.load(open(f))
        res = []
        for p, r in (m.get("checks_run") or {}).items():
            res.append("%s: %s" % (p, {0: "missed", 1: "**caught**", 2: "exit 2"}.get(r["rc"], r["rc"])))
        for h in m.get("history", []):
            res.append(h)
        out.append("| %s | %s | %s | %s |" % (m["id"], ", ".join(m.get("files") or []), (m.get("needs") or "").replace("|", "\\|").replace("\n", " ")[:420], "; ".join(res)))
    return "\n".join(out)

def main():
    p = os.path.join(ROOT, "DESIGN.md")
    s = open(p).read()
    for name, fn in (("findings", findings), ("seeded", seeded)):
        b, e = "<!-- BEGIN:%s -->" % name, "<!-- END:%s -->" % name
        if b in s and e in s:
            s = s[:s.index(b) + len(b)] + "\n" + fn() + "\n" + s[s.index(e):]
    open(p, "w").write(s)

if __name__ == "__main__":
    main()
