#!/usr/bin/env python3
import json, sys
i, note = sys.argv[1], sys.argv[2]
p = "/verif/seeded/%s/meta.json" % i
m = json.load(open(p)); m.setdefault("history", []).append(note); json.dump(m, open(p, "w"), indent=1)
