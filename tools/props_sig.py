"""Family `sig`: C08 (spec/SigVerify.tla) and C09 (spec/MultiSig.tla, spec/MaskTrace.tla).

Both are case-lattice families (DESIGN 3.3c): TLC checks the meta-properties of the
verdict operators over the whole reachable case space and prints every behaviour with
the predicted observations; harness/cmd/vh-sig replays them on the real packages.
C09 additionally records random mask call sequences from the real bdn/cosi masks and
has TLC validate them against MaskTrace.tla (code -> spec)."""
import glob
import json
import os
import random
import re
import threading

from vlib import Broken, cfg, log

PKG = "./cmd/vh-sig"

ASSUME_SIG = [
    "finite manipulation menus: unforgeability / computational soundness is not decided; what is decided is that every manipulation of the menu (and, thorough tier, every pair) is rejected and every honest case accepted",
    "operands (keys, nonces, message bytes, which bit of a class is flipped, which ring entries are swapped) are drawn from the seed; the abstract case space (scheme x ring size x position x scope x length class x manipulation x deviating argument) is enumerated exhaustively by TLC",
    "a concretiser certifies the effect of its manipulation (math/big Edwards25519 reference model, scalar residues mod the stated group order, or decode-and-compare with the library's own decoder for the non-Ed25519 groups); uncertified cases are counted as unwitnessed and never judged",
    "TLC, Go's crypto/ed25519, crypto/sha512 and math/big are trusted",
]


def _collect(ctx, module, cfg_text, name, **kw):
    out = os.path.join(ctx.tmp, name + ".ndjson")
    run = ctx.tlc(module, cfg_text, name=name, collect=out, **kw)
    if run["behaviours"] == 0:
        raise Broken("generator %s produced no behaviours" % name)
    return out, run


def _need(outcomes, keys, what):
    """vacuity gate: every listed outcome class must have been exercised"""
    for k in keys:
        if not any(o.startswith(k) and n > 0 for o, n in outcomes.items()):
            raise Broken("vacuous run: no %s case with outcome class %r was executed" % (what, k))


# --------------------------------------------------------------------------- C08

def c08(ctx):
    q = ctx.quick
    consts = {
        "Schemes": ["schnorr", "schnorr-ed", "eddsa", "ring", "ring-ed"],
        "MaxRing": 8,
        "MaxDist": 1 if q else 2,
        "MlAllUpTo": 0 if q else 1,
        "Rot": ctx.seed % 6,
        "Crafts": True,
        "LinkRing": 4 if q else 8,
        "ReuseLen": 4 if q else 5,
        "Conc": True,
    }
    # one TLC run: meta-properties of the verdict relation on every reachable signature record
    # (MetaAll, TamperMonotone, LinkSound) and generation of every behaviour Sign;Tamper*;Verify
    bh, _ = _collect(ctx, "SigVerify",
                     cfg(constants=consts, invariants=["TypeOK", "MetaAll", "LinkSound", "ReuseSound", "Emit"], properties=["TamperMonotone"]),
                     "C08_gen")
    res = ctx.run_vh("c08", ["-in", bh, "-max", 0 if q else 60000, "-maxslow", 80 if q else 1500, "-bindings", 6 if q else 2], binary=ctx.build(pkg=PKG))
    oc = (res.get("extra") or {}).get("outcomes", {})
    _need(oc, ["verdict:accept:accept", "verdict:reject:reject", "verdict:free:", "link:equal", "link:different", "reuse:accept:accept", "reuse:reject:reject", "reuse:audit", "conc:all-accept"], "C08")
    _conc_race(ctx, bh)
    if not q:
        # larger abstract space without generation: three manipulations / deviating arguments per behaviour
        big = dict(consts, MaxDist=3, MlAllUpTo=0, LinkRing=0, MaxRing=5, ReuseLen=0, Conc=False)
        ctx.tlc("SigVerify", cfg(constants=big, invariants=["TypeOK", "MetaAll"], properties=["TamperMonotone"], view="View"), name="C08_mc3")
    return ctx.finish(
        "model_checking",
        "case = (scheme in {schnorr x 20 group instances, schnorr on edwards25519, eddsa, ring on edwards25519, ring on P-256} x ring size 1..8 x signer position x link scope? x message length in {0,1,63,64,65,4096} x honest | crafted Ed25519 small-order/non-canonical construction x set of byte-level manipulations x deviating Verify argument x verifier entry point); "
        "TLC enumerates every case with at most %d manipulations/deviations, predicts accept/reject/free and checks Total, AcceptImpliesUntouched, HonestAccepted, FreedomExplicit, StrictNoSecondEncoding, TamperMonotone, LinkSound on all of them; each case is executed on the real verifier; distinct = (configuration, behaviour); "
        "EdDSA additionally: Sign bytes and public key equal crypto/ed25519 for the same seed, kyber accepts => crypto/ed25519 accepts; linkage tags equal <=> same key and scope; "
        "object reuse: every sequence of %d calls (re-key in place / NewEdDSA / Sign / MarshalBinary / reload / Verify) on one EdDSA object and one schnorr Scheme object, every signature must be the one of the object's CURRENT key (byte-equal to crypto/ed25519)" % (consts["MaxDist"], consts["ReuseLen"]),
        ASSUME_SIG + [
            "Ed25519 canonicity / small-order rejection is demanded at every verifier entry point of the non-ring Ed25519 schemes (eddsa.Verify/VerifyWithChecks, schnorr.Verify/VerifyWithChecks/Scheme.Verify on edwards25519); only value-preserving re-encodings (S+kL, trailing byte) on other groups and in ring signatures are tagged free",
            "a non-canonical encoding of a point of large order cannot be constructed together with a satisfied group equation (needs a discrete log); non-canonical R / key cases are therefore small-order points in their alternative encodings",
        ],
        exhaustive=False)


def _conc_race(ctx, bh):
    """the concurrent-verification behaviours once more under the race detector: whether two goroutines collide
    inside a verifier is a matter of timing, the happens-before analysis of the executed accesses is not"""
    conc = os.path.join(ctx.tmp, "C08_conc.ndjson")
    n = 0
    with open(conc, "w") as f:
        for line in open(bh):
            if line.startswith('[{"') and '"act":"CSign"' in line.split("},", 1)[0]:
                f.write(line)
                n += 1
    if n == 0:
        raise Broken("no concurrent-verification behaviours were generated")
    rb = ctx.build(race=True, pkg=PKG)
    logp = os.path.join(ctx.tmp, "c08race")
    ctx.run_vh("c08", ["-in", conc, "-bindings", 1, "-concrounds", 2], binary=rb,
               env={"GORACE": "halt_on_error=0 exitcode=0 log_path=" + logp})
    seen = {}
    for fn in glob.glob(logp + ".*"):
        txt = open(fn, errors="replace").read()
        for block in txt.split("WARNING: DATA RACE")[1:]:
            block = block.split("==================")[0]
            m = re.search(r"go\.dedis\.ch/kyber/v4/([A-Za-z0-9_/]+)\.", block)
            pkg = m.group(1) if m else "unknown"
            seen.setdefault(pkg, block[:3000])
    for pkg, block in sorted(seen.items()):
        ctx.violations.append({
            "key": "C08/concurrent-verify/data-race/%s" % pkg,
            "what": "data race in package %s while several goroutines verify honest signatures against one shared public-key object" % pkg,
            "detail": {"race_report": block, "behaviours": conc},
            "driver": "c08", "args": ["-concrounds", "2"]})
    ctx.cov["extra"].setdefault("conc_race", []).append({"behaviours": n, "race_reports_by_package": sorted(seen)})


# --------------------------------------------------------------------------- C09

MT_CFG = cfg(spec="TraceSpec",
             constants={"Modes": ["bdn"], "NMax": 2, "MaxExtra": 0, "MaxExtraBig": 0, "Rot": 0, "BuggyDup": False, "NSSet": [1], "MaxOps": 0, "MaxOpsBig": 0, "MaxProbes": 0, "BufLen": 0},
             constraint="Mark", postcondition="TraceAccepted")


def _mask_traces(ctx, binary, n_traces, events, selftest):
    """code -> spec: record random call sequences on real bdn/cosi masks, validate with TLC"""
    tf = os.path.join(ctx.tmp, "masktrace.ndjson")
    ctx.run_vh("masktrace", ["-trace", tf, "-traces", n_traces, "-events", events], binary=binary)
    ok, at, run = ctx.tlc_validate("MaskTrace", MT_CFG, tf, name="C09_masktrace")
    ctx.cov["traces_validated_against_impl"] += n_traces
    if not ok:
        lines = open(tf).read().splitlines()
        if at is None:
            raise Broken("mask trace validation failed without a position:\n" + run.get("tail", ""))
        # a rejected trace is a lead: the offending event and the prefix of its run
        start = at - 1
        while start > 0 and '"reset"' not in lines[start]:
            start -= 1
        ev = json.loads(lines[at - 1])
        kind = json.loads(lines[start]).get("kind", "?")
        ctx.violations.append({
            "key": "C09/masktrace/%s/%s/projection-or-return-differs" % (kind, ev.get("ev")),
            "what": "a recorded %s mask run is not a behaviour of the mask specification at event %s (return value, Mask()/CountEnabled/IndexOfNthEnabled projection, or the aggregate key reported at an AggKey event)" % (kind, ev.get("ev")),
            "detail": {"rejected_at": at, "trace_prefix": [json.loads(x) for x in lines[start:at]]},
            "driver": "masktrace", "args": []})
    if selftest and ok:
        # binding demonstration: corrupt one recorded field -> the trace must be rejected there
        lines = open(tf).read().splitlines()
        rnd = random.Random(ctx.seed)
        cand = [i for i, x in enumerate(lines) if '"state"' in x]
        k = cand[rnd.randrange(len(cand))]
        ev = json.loads(lines[k])
        which = rnd.randrange(3)
        if which == 0:
            ev["state"]["count"] += 1
        elif which == 1:
            ev["state"]["mask"][0] ^= 1
        else:
            ev["ret"] = "error" if ev["ret"] == "ok" else "ok"
        lines[k] = json.dumps(ev)
        bad = os.path.join(ctx.tmp, "masktrace-corrupt.ndjson")
        open(bad, "w").write("\n".join(lines) + "\n")
        ok2, at2, _ = ctx.tlc_validate("MaskTrace", MT_CFG, bad, name="C09_masktrace_selftest")
        if ok2 or at2 != k + 1:
            raise Broken("self-test failed: corrupted mask trace (line %d, field %d) was %s" % (k + 1, which, "accepted" if ok2 else "rejected at %s" % at2))
        ctx.cov["extra"].setdefault("selftest", []).append({"corrupted_line": k + 1, "rejected_at": at2})


def c09(ctx):
    q = ctx.quick
    binary = ctx.build(pkg=PKG)
    consts = {
        "Modes": ["bls", "tbls", "bdn", "cosi", "buf"],
        "NMax": 4 if q else 5,
        "MaxExtra": 1 if q else 2,
        "MaxExtraBig": 1,
        "Rot": ctx.seed % 6,
        "BuggyDup": False,
        "NSSet": [4, 10],
        "MaxOps": 2,
        "MaxOpsBig": 1 if q else 2,
        "MaxProbes": 1 if q else 2,
        "BufLen": 4 if q else 5,
    }
    # code -> spec in a background thread (TLC start-up dominates; it overlaps with the generator run)
    err = []

    def bg():
        try:
            _mask_traces(ctx, binary, 80 if q else 600, 12 if q else 16, selftest=not q)
        except BaseException as e:  # noqa: BLE001 - re-raised below
            err.append(e)

    th = threading.Thread(target=bg)
    th.start()
    try:
        bh, _ = _collect(ctx, "MultiSig",
                         cfg(constants=consts, invariants=["TypeOK", "Meta", "RecoverIffEnoughValid", "Emit"]), "C09_gen")
        res = ctx.run_vh("c09", ["-in", bh, "-exh", 2, "-max", 150 if q else 2000, "-maxslow", 300 if q else 3000,
                                 "-pairmax", 100 if q else 1000, "-maskmax", 1500 if q else 4000], binary=binary)
    finally:
        th.join()
    if err:
        raise err[0]
    oc = (res.get("extra") or {}).get("outcomes", {})
    _need(oc, ["bls:accept:accept", "bls:reject:reject", "tbls:sig:sig", "tbls:error:error", "bdn:same:accept:accept",
               "bdn:add:reject:reject", "bdn:msg:reject:reject", "cosi:accept:accept", "cosi:reject:reject",
               "buf:BufVerify:accept:accept", "buf:BufVerify:reject:reject", "buf:BufRecover:sig:sig", "buf:BufRecover:error:error",
               "buf:BufBdnVerify:accept:accept", "buf:BufBdnVerify:reject:reject"], "C09")
    if not q:
        # the whole list space without the junk/duplicate bound, model only (RecoverIffEnoughValid, TblsMeta)
        full = dict(consts, Modes=["tbls"], MaxExtra=6, MaxExtraBig=3, NMax=5)
        ctx.tlc("MultiSig", cfg(constants=full, invariants=["TypeOK", "Meta", "RecoverIffEnoughValid"], view="View"), name="C09_tbls_mc")
        # every mask call sequence of length <= 4 for 4 signers, model only (the state graph is small: MaskMeta, BdnMeta, CosiMeta)
        m4 = dict(consts, Modes=["bdn", "cosi"], NSSet=[4], MaxOps=4, MaxOpsBig=0, MaxProbes=0)
        ctx.tlc("MultiSig", cfg(constants=dict(m4, MaxProbes=2), invariants=["TypeOK", "Meta"], view="View"), name="C09_masks_mc4")
        # transition tour of that graph: one replayed behaviour per (mask state, operation)
        tb, _ = _collect(ctx, "MultiSig", cfg(constants=m4, invariants=["TypeOK"], view="TourView", action_constraint="EmitEdge"), "C09_tour")
        ctx.run_vh("c09", ["-in", tb, "-exh", 1, "-pairmax", 300, "-maskmax", 3000, "-maxslow", 1000], binary=binary)
        # random longer call sequences (<= 6 calls; 4 and 10 signers)
        ms = dict(consts, Modes=["bdn", "cosi"], MaxOps=6, MaxOpsBig=6, MaxProbes=3)
        mb, _ = _collect(ctx, "MultiSig", cfg(constants=ms, invariants=["TypeOK", "Emit"]), "C09_masks_sim",
                         simulate="num=1500", depth=12, workers=1)
        ctx.run_vh("c09", ["-in", mb, "-exh", -1, "-pairmax", 200, "-maxslow", 500], binary=binary)
        # larger (n, t) by simulation: random lists for 2 <= t <= n <= 8, replayed on all 8 combinations
        simc = dict(consts, Modes=["tbls"], NMax=8, MaxExtra=4, MaxExtraBig=4)
        sb, _ = _collect(ctx, "MultiSig", cfg(constants=simc, invariants=["TypeOK", "Emit"]), "C09_tbls_sim",
                         simulate="num=600", depth=14, workers=1)
        ctx.run_vh("c09", ["-in", sb, "-exh", -1], binary=binary)
        # self-test of the model: the scan of the pinned tree (duplicates counted) must violate RecoverIffEnoughValid
        bug = dict(consts, Modes=["tbls"], BuggyDup=True, NMax=3, MaxExtra=2)
        run = ctx.tlc("MultiSig", cfg(constants=bug, invariants=["RecoverIffEnoughValid"], view="View"), name="C09_buggy_scan_selftest", allow_violation=True)
        if not run.get("violated"):
            raise Broken("self-test failed: the duplicate-counting scan satisfies RecoverIffEnoughValid")
    return ctx.finish(
        "model_checking",
        "bls: every (manipulation of the signature x deviating key x deviating message) on the 8 supported (suite, signature group) combinations; "
        "tbls: every (n, t) with 2<=t<=n<=%d and every list of partials of length <= n+2 over {valid(i)} + one junk letter per position (kinds invalid / wrong message / relabelled index / garbage / short / empty rotate) with at most %d junk+duplicate entries, Recover ok <=> >= t distinct valid indices, recovered bytes = signature of the group secret, VerifyPartial per entry; exhaustive on 2 combinations chosen by the seed, sampled on the other 6; "
        "bdn: mask objects as bitsets, constructor with/without own key, every sequence of <= %d SetBit/SetMask/Merge/Clone calls (all subsets as arguments, out-of-range indices, wrong lengths) for 4 signers and a menu for 10 signers, projection after every call, aggregate key a function of the bits, Verify <=> same mask and message (pairing level on a quota); "
        "cosi: the same mask machine with AggregatePublic = sum of enabled keys after every call, then sign with the participants and verify under 13 manipulations x policies; "
        "buf: long-lived bls/tbls/bdn scheme objects and one caller-owned message buffer overwritten in place (two same-length contents, one of another length, restored), every sequence of %d Write / Sign / Verify / tbls partials / Recover / bdn Sign / Aggregate+Verify calls, each verdict and each signature determined by the buffer contents at call time, caller slices unmodified; "
        "distinct = (configuration, behaviour); recorded direction: random call sequences on real bdn/cosi masks validated by TLC against MaskTrace" % (consts["NMax"], consts["MaxExtra"], consts["MaxOps"], consts["BufLen"]),
        ASSUME_SIG[:1] + [
            "junk partials are built to be invalid (signed with an unrelated scalar / for another message / relabelled / random bytes / truncated); that a random scalar differs from the share is assumed",
            "the empty BDN aggregate (identity signature under the identity key) is tagged free; trailing bytes after a BLS point, r+L and padding bits of a CoSi mask are value-preserving and tagged free",
            "the BDN coefficient function itself (resistance to rogue keys) is not judged; only that key and signature aggregates are consistent functions of the bitset however the mask object was built",
            "TLC, math/big are trusted; operands derive from the seed",
        ],
        exhaustive=False)


PROPS = {"C08": c08, "C09": c09}
