"""Family `xof`: C19 (XOF.tla, XOFTrace.tla, TinyField.tla, RandStream.tla) and C20 (SharedRead.tla).
Also exports tiny_scalar(ctx) for C02 (exact mod.Int arithmetic over Z_m, m = 2..17)."""
import copy
import json
import os
import random

from vlib import Broken, cfg, log

PKG = "./cmd/vh-xof"
CHUNKS = [0, 1, 31, 32, 33, 63, 64, 65, 127, 128, 129, 600]
SEEDS = [0, 1, 31, 32, 33, 63, 64, 65, 128, 300]


def _bin(ctx, race=False):
    return ctx.build(pkg=PKG, race=race)


def _gen(ctx, module, constants, name, L=None, simulate=None, depth=None, invariants=("Emit",), timeout=1700):
    out = os.path.join(ctx.tmp, name + ".ndjson")
    run = ctx.tlc(module, cfg(constants=constants, invariants=list(invariants)), name=name, collect=out,
                  simulate=simulate, depth=depth, workers=(1 if simulate else None), timeout=timeout)
    if run["behaviours"] == 0:
        raise Broken("generator %s produced no behaviours" % name)
    return out


# ----------------------------------------------------------------------------- XOF
ALL_OPS = ["New", "Write", "Read", "Xor", "Reseed", "Reset", "Clone"]


def xof_consts(init, mid, chunks, L, ops=ALL_OPS):
    return {"InitSeeds": list(init), "MidSeeds": list(mid), "Chunks": list(chunks), "L": L, "Ops": list(ops)}


XOF_PROPS = ["CloneExact", "WriteGuard", "ReseedWritable", "ResetSpec", "Isolation"]


def _all_ops(res):
    """vacuity gate: every action of XOF.tla occurs in the replayed behaviours"""
    ops = (res.get("extra") or {}).get("ops") or {}
    missing = [o for o in ("New", "Write", "Read", "Xor", "Reseed", "Reset", "Clone") if not ops.get(o)]
    if missing:
        raise Broken("vacuous generator: no behaviour contains %s" % missing)


def xof_part(ctx):
    q = ctx.quick
    rnd = random.Random(ctx.seed * 7919 + 19)
    vh = _bin(ctx)
    s2 = rnd.sample(SEEDS, 2)
    # 1. the model itself: declarative meaning of the op log == incremental state, clone / write guard / reset
    # 2. exhaustive behaviours, full chunk menu, every seed class
    if q:   # one TLC run: the invariants are checked on every state of the generator's space
        bh = os.path.join(ctx.tmp, "C19_xof_full.ndjson")
        run = ctx.tlc("XOF", cfg(constants=xof_consts(SEEDS, s2[:1], CHUNKS, 3), invariants=["TypeOK", "Refines", "Emit"],
                                 properties=XOF_PROPS), name="C19_xof_mc_full", collect=bh)
        if run["behaviours"] == 0:
            raise Broken("generator C19_xof_mc_full produced no behaviours")
        res = ctx.run_vh("xof", ["-in", bh, "-bindings", 1], binary=vh)
        _all_ops(res)
    else:
        ctx.tlc("XOF", cfg(constants=xof_consts(s2, s2[:1], CHUNKS, 4), invariants=["TypeOK", "Refines"],
                           properties=XOF_PROPS, view="View"), name="C19_xof_mc")
        bh = _gen(ctx, "XOF", xof_consts(SEEDS, s2[:1], CHUNKS, 3), "C19_xof_full_L3")     # every seed class
        _all_ops(ctx.run_vh("xof", ["-in", bh, "-bindings", 2], binary=vh))
        os.remove(bh)
        order = SEEDS[:]
        rnd.shuffle(order)
        order = order[:6]                   # one more operation for 6 of the 10 seed classes (drawn from --seed)
        for i in range(0, len(order), 2):   # sharded to bound the size of one behaviour file
            bh = _gen(ctx, "XOF", xof_consts(order[i:i + 2], order[i:i + 1], CHUNKS, 4), "C19_xof_full_%d" % i)
            ctx.run_vh("xof", ["-in", bh, "-bindings", 1], binary=vh)
            os.remove(bh)
    # 3. exhaustive deeper behaviours (6 operations incl. the first New) over a 2-class chunk menu drawn from the seed
    c2 = rnd.sample([c for c in CHUNKS if c], 1 if q else 2)   # quick: one class (all class pairs are in run 2)
    s1 = rnd.sample(SEEDS, 1)
    bh = _gen(ctx, "XOF", xof_consts(s1, s1, c2, 5 if q else 6), "C19_xof_deep")
    _all_ops(ctx.run_vh("xof", ["-in", bh, "-bindings", 1 if q else 2], binary=vh))
    os.remove(bh)
    # 3b. focus: clones of reseeded handles and what is done to them (Reseed; Clone; Reset(clone) / Reset(both);
    # further calls on the -- now unspecified -- clone; interleaved reads): exhaustive over the reduced menu; the
    # factory-made handle is judged against the reference after every step, the clone after its Reset never
    c1 = rnd.sample([c for c in CHUNKS if c], 1 if q else 2)
    s1 = rnd.sample(SEEDS, 1)
    bh = os.path.join(ctx.tmp, "C19_xof_focus.ndjson")
    run = ctx.tlc("XOF", cfg(constants=xof_consts(s1, [], c1, 6, ops=["Reseed", "Clone", "Reset", "Read"] + ([] if q else ["Xor"])),
                             invariants=["TypeOK", "Refines", "Emit"], properties=XOF_PROPS), name="C19_xof_focus", collect=bh)
    if run["behaviours"] == 0:
        raise Broken("generator C19_xof_focus produced no behaviours")
    res = ctx.run_vh("xof", ["-in", bh, "-bindings", 1 if q else 2], binary=vh)
    if not ((res.get("extra") or {}).get("unspec_steps")):
        raise Broken("vacuous focus run: no call on an unspecified clone was replayed")
    os.remove(bh)
    # 4. long random behaviours (30 steps), full menus
    bh = _gen(ctx, "XOF", xof_consts(SEEDS, SEEDS, CHUNKS, 30), "C19_xof_sim",
              simulate="num=%d" % (8 if q else 200), depth=30)
    ctx.run_vh("xof", ["-in", bh, "-bindings", 1 if q else 2], binary=vh)
    os.remove(bh)
    # 5. code -> spec: recorded op logs of a randomized driver validated by XOFTrace
    xof_traces(ctx, vh, 30 if q else 160, selftest=not q)


TRACE_CFG = cfg(spec="TraceSpec", constants=xof_consts([], [], [], 0), constraint="Mark", postcondition="TraceAccepted")


def xof_traces(ctx, vh, num, selftest):
    tf = os.path.join(ctx.tmp, "xof-traces.ndjson")
    ctx.run_vh("xofrec", ["-trace", tf, "-num", num], binary=vh)
    events = [json.loads(x) for x in open(tf)]
    ntr = sum(1 for e in events if e["ev"] == "reset")
    ok, at, run = ctx.tlc_validate("XOFTrace", TRACE_CFG, tf, name="C19_xoftrace")
    if ok:
        ctx.cov["traces_validated_against_impl"] += ntr
    else:
        if not at or at > len(events):
            raise Broken("XOFTrace rejected the trace file but gave no position:\n" + run.get("tail", ""))
        e = events[at - 1]
        j = at - 1
        while j > 0 and events[j]["ev"] != "reset":
            j -= 1
        impl = e["obj"].split("#")[0]
        ctx.violations.append({
            "key": "C19/%s/trace:%s/not-a-behaviour" % (impl, e["ev"]),
            "what": "a recorded call of the real %s XOF is not explained by any behaviour of spec/XOF.tla "
                    "(bytes disagree with an earlier observation of the same transcript and position, or the call "
                    "was refused/accepted in the wrong mode)" % impl,
            "detail": {"rejected_at_line": at, "event": e, "trace_prefix": events[j:at]}, "driver": "xofrec", "args": []})
    if selftest:
        # binding demonstration: corrupt one recorded byte -> the trace must be rejected exactly there
        resets = set()
        pick = None
        for i, e in enumerate(events):
            if e["ev"] == "reset":
                resets = set()
            elif e["ev"] == "Reset":
                resets.add(e["args"]["h"])
            elif e["ev"] in ("Read", "Xor") and e["args"]["n"] >= 1 and e["args"]["h"] not in resets \
                    and e["ret"]["st"] == "ok" and i > len(events) // 3:
                pick = i
                break
        if pick is None:
            raise Broken("self-test: no Read event to corrupt")
        bad = copy.deepcopy(events)
        bad[pick]["ret"]["out"][0] ^= 1
        cf = os.path.join(ctx.tmp, "xof-traces-corrupt.ndjson")
        with open(cf, "w") as f:
            for e in bad:
                f.write(json.dumps(e) + "\n")
        ok2, at2, _ = ctx.tlc_validate("XOFTrace", TRACE_CFG, cf, name="C19_xoftrace_selftest")
        if ok2 or at2 != pick + 1:
            raise Broken("self-test failed: corrupted trace (line %d) was %s" % (pick + 1, "accepted" if ok2 else "rejected at %s" % at2))
        ctx.cov["extra"].setdefault("selftests", []).append({"xoftrace_corrupt_line": pick + 1, "rejected_at": at2})
    os.remove(tf)


# ----------------------------------------------------------------------------- TinyField / RandStream
ALL_MODULI = list(range(2, 18))


def tiny_consts(mode, L=2, moduli=(), rmoduli=(), biglens=(), bitlens=()):
    return {"Mode": mode, "Moduli": list(moduli), "L": L, "RModuli": list(rmoduli), "BigLens": list(biglens),
            "BitLens": list(bitlens)}


def tiny_scalar(ctx, moduli_filter="", binary=None, L=None, also=None):
    """Exact check of kyber's mod.Int over Z_m, m = 2..17 (used by C02 and by C19's thorough tier):
    TLC computes every (op, operand aliasing, a, b) result, SetInt64 -20..20 and SetBytes of 1..3 bytes in both byte
    orders; the Go driver `tiny -what scalar` compares exhaustively.  `binary` lets the caller pass a vh-xof built
    with other tags (e.g. constantTime: pass moduli_filter="odd", the bigmod engine needs odd moduli)."""
    L = L or (2 if ctx.quick else 3)
    mods = ALL_MODULI if L == 2 else [2, 3, 4, 7, 9, 16, 17]
    bh = _gen(ctx, "TinyField", tiny_consts("scalar", L=L, moduli=mods), "%s_tiny_scalar_L%d" % (ctx.prop, L),
              invariants=("Emit", "ScalarSound"))
    args = ["-what", "scalar", "-in", bh]
    if moduli_filter:
        args += ["-moduli", moduli_filter]
    res = ctx.run_vh("tiny", args, binary=binary or _bin(ctx))
    for b, filt in (also or []):   # the same behaviours on other builds, e.g. (vh-tiny built with constantTime, "odd")
        ctx.run_vh("tiny", ["-what", "scalar", "-in", bh] + (["-moduli", filt] if filt else []), binary=b)
    os.remove(bh)
    if L > 2:   # the full single-operation table as well
        tiny_scalar(ctx, moduli_filter, binary, L=2, also=also)
    return res


def random_part(ctx):
    q = ctx.quick
    vh = _bin(ctx)
    if q:
        bitlens = sorted(set(list(range(0, 20)) + [63, 64, 65, 255, 256, 257, 511, 512, 513, 520, 521, 1023, 1024, 1025, 1029, 1030]))
        biglens = [1, 2, 3, 7, 8, 9, 64, 65, 255, 256, 521]
    else:
        bitlens = list(range(0, 1031))
        biglens = sorted(set(list(range(1, 20)) + [31, 32, 33, 63, 64, 65, 127, 128, 129, 252, 253, 254, 255, 256, 257, 381, 382,
                                                   511, 512, 513, 519, 520, 521]))
    bh = _gen(ctx, "TinyField", tiny_consts("random", rmoduli=range(1, 18), biglens=biglens, bitlens=bitlens),
              "C19_tiny_random", invariants=("Emit", "RandSound", "Unbiased", "BitsSound"))
    ctx.run_vh("tiny", ["-what", "random", "-in", bh], binary=vh)
    os.remove(bh)
    if not q:
        tiny_scalar(ctx, binary=vh, L=2)   # the exact Z_m table of mod.Int (C02 runs the longer chains)
    # reader mixing
    bh = _gen(ctx, "RandStream", {"MaxR": 4, "Supplies": [0, 10, 32, 96], "Lens": [0, 16, 100] if q else [0, 16, 33, 100],
                                  "L": 3 if q else 4},
              "C19_randstream", invariants=("Emit", "TypeOK", "CallSound", "NoReuse"))
    ctx.run_vh("randstream", ["-in", bh], binary=vh)
    os.remove(bh)


C19_ASSUME = [
    "the output function of an XOF is uninterpreted in the model: its values come from a single-shot reference handle of the SAME implementation (New, one Write, one Read); a defect that changes the single-shot function itself consistently (e.g. a wrong but deterministic permutation) is invisible here (C18 compares implementations with external vectors)",
    "Reset of a clone and Write in squeeze mode are left unspecified (never judged)",
    "'without modulo bias' is decided exactly for moduli 1..17 (value = first masked candidate below the modulus, bytes consumed); for large moduli only the structure (mask to BitLen, reject >= modulus, consume whole candidates) is checked on scripted streams",
    "trace validation accepts a log iff SOME interpretation of the output function explains it: an altered recorded input is detectable only if the same transcript is observed along another route (the recorder mirrors every program with another chunking)",
]


def c19(ctx):
    xof_part(ctx)
    random_part(ctx)
    return ctx.finish("model_checking",
                      "XOF: behaviour = operation sequence over 2 handles (New/Write/Read/XORKeyStream/Reseed/Reset/Clone with chunk and seed length classes) x implementation x binding; distinct = (implementation, binding, behaviour); util/random: exact table of random.Int for moduli 1..17 x scripted streams, class table for 1..521-bit moduli, random.Bits for every bit length x exact x top byte; random.New: reader sets x supplies x calls",
                      C19_ASSUME, exhaustive=False)


# ----------------------------------------------------------------------------- C20
SR_KINDS = ["point", "scalar", "suite", "pairing", "bdnmask", "cosimask", "pubpoly", "verifier", "stream", "predicate"]
SR_INV = ["TypeOK", "NoConflict", "ResultsSequential", "DrawsDistinct", "ObjectUnchanged", "Emit"]
C20_ASSUME = [
    "the schedule quantifier is discharged by the race detector's happens-before analysis of the accesses that were executed (G goroutines released by one barrier, a few repetitions on fresh shared objects), not by TLC: kyber's methods contain no synchronisation points at which a TLC-chosen schedule could be imposed",
    "TLC checks NoConflict / ResultsSequential over all interleavings only for the footprint model (read-only operations = reads of the shared object + writes of private results) and enumerates the workloads; whether a real method has that footprint is what the race detector observes",
    "a race that needs three or more different operations, or operations outside the listed read-only method set, or object states not produced by 'freshly decoded' / 'result of one arithmetic operation', is not explored; slow configurations (GT, pairings, edwards25519vartime) run fewer repetitions",
    "results of operations that draw randomness are not compared with the sequential run",
]


def c20(ctx):
    q = ctx.quick
    wl = os.path.join(ctx.tmp, "C20_workloads.ndjson")
    ctx.tlc("SharedRead", cfg(constants={"G": 2, "Kinds": SR_KINDS, "Lazy": [], "Cached": [], "SharedBuf": []}, invariants=SR_INV), name="C20_pairs", collect=wl)
    files = [wl]
    if not q:
        w3 = os.path.join(ctx.tmp, "C20_workloads3.ndjson")
        ctx.tlc("SharedRead", cfg(constants={"G": 3, "Kinds": SR_KINDS, "Lazy": [], "Cached": [], "SharedBuf": []}, invariants=SR_INV), name="C20_triples", collect=w3)
        files.append(w3)
        # self-test of the model: a lazily normalising read-only method (the implementation layer of finding #9)
        # must violate NoConflict
        run = ctx.tlc("SharedRead", cfg(constants={"G": 2, "Kinds": ["point"], "Lazy": ["point/MarshalBinary", "point/String", "point/Data"], "Cached": [], "SharedBuf": []},
                                        invariants=["TypeOK", "NoConflict", "ResultsSequential"]),
                      name="C20_lazy_selftest", allow_violation=True)
        if not run["violated"]:
            raise Broken("self-test failed: the SharedRead model does not flag in-place normalisation inside a read-only method")
        # the same for a lazily created field of a fresh suite object (first concurrent RandomStream() calls)
        run = ctx.tlc("SharedRead", cfg(constants={"G": 2, "Kinds": ["suite"], "Lazy": ["suite/RandomStream"], "Cached": [], "SharedBuf": []},
                                        invariants=["TypeOK", "NoConflict", "ResultsSequential"]),
                      name="C20_lazy_suite_selftest", allow_violation=True)
        if not run["violated"]:
            raise Broken("self-test failed: the SharedRead model does not flag lazy initialisation inside a suite's read-only method")
        # and for a package-level cache keyed by the operand (visible only when DIFFERENT shared operands are in flight)
        run = ctx.tlc("SharedRead", cfg(constants={"G": 2, "Kinds": ["point"], "Lazy": [], "Cached": ["point/MulOperand"], "SharedBuf": []},
                                        invariants=["TypeOK", "NoConflict", "ResultsSequential"]),
                      name="C20_cached_selftest", allow_violation=True)
        if not run["violated"]:
            raise Broken("self-test failed: the SharedRead model does not flag a package-level cache keyed by the operand")
        # and for an entropy buffer kept inside a shared stream object: duplicate draws
        run = ctx.tlc("SharedRead", cfg(constants={"G": 2, "Kinds": ["stream"], "Lazy": [], "Cached": [],
                                                   "SharedBuf": ["stream/Draw", "stream/DrawLong", "stream/PickScalar"]},
                                        invariants=["TypeOK", "DrawsDistinct"]),
                      name="C20_sharedbuf_selftest", allow_violation=True)
        if not run["violated"]:
            raise Broken("self-test failed: the SharedRead model does not flag duplicate draws from a shared entropy buffer")
        ctx.cov["extra"].setdefault("selftests", []).append({"shared_entropy_buffer_flagged_by_model": True,
                                                             "lazy_normalisation_flagged_by_model": True,
                                                             "lazy_suite_field_flagged_by_model": True,
                                                             "package_level_cache_flagged_by_model": True})
    race = _bin(ctx, race=True)
    for i, f in enumerate(files):
        if sum(1 for _ in open(f)) == 0:
            raise Broken("no workloads enumerated")
        triples = i == 1
        res = ctx.run_vh("shared", ["-in", f, "-g", 9 if triples else 8, "-reps", (5 if q else (4 if triples else 12)),
                                    "-budget", 60 if q else 150], binary=race, timeout=3000)
        per = (res.get("extra") or {}).get("cases_per_kind") or {}
        missing = [k for k in SR_KINDS if not per.get(k + "#cases")]
        if missing:
            raise Broken("vacuous run: no workload executed for object kinds %s" % missing)
        hr = (res.get("extra") or {}).get("harness_races")
        if hr:
            raise Broken("the race detector reported a race that does not touch kyber (harness defect):\n" + hr[0][:3000])
    return ctx.finish("exploration",
                      "workload = (object kind, representation (decoded / arith values; fresh = new suite / scheme / mask / PubPoly object whose first calls are made concurrently by the goroutines; warm = one stream object shared), objects (same = one shared object; distinct = the operations run on two different shared objects concurrently through the same suite / scheme / package code), multiset of 2 (thorough: also 3) read-only operations) enumerated by TLC from spec/SharedRead.tla x configuration (21 groups, 9 scalar implementations, 9 suites, 5 pairing suites, BDN/CoSi masks, 5 PubPoly groups, 11 verifiers, 6 shared random streams (draws pairwise distinct), 2 shared proof.Predicate trees); distinct = (kind, configuration, representation, operations)",
                      C20_ASSUME, exhaustive=False)


PROPS = {"C19": c19, "C20": c20}
