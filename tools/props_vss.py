"""C10 -- VSS (Pedersen and Rabin variants): spec/VSSAgg.tla (per-observer aggregator),
spec/VSSSystem.tla (end-to-end causality), spec/VSSAggTrace.tla (trace validation)."""
import json
import os
import subprocess
from concurrent.futures import ThreadPoolExecutor

from vlib import Broken, REPO, cfg, go_bin, go_env, log

INVS = ["TypeOK", "NoBadApproval", "CertifiedSound", "EnoughSound", "TableSound", "HonestCertifies", "NothingBeforeDeal"]
PROPS_T = ["BadDealerSticky", "TimeoutSticky", "OneResponse", "Refines"]

ASSUME = [
    "per-observer decomposition: aggregators interact only through signed messages, so certification at a party is a function of that party's received history; the environment is the finite class menu of VSSAgg.tla (deal kinds, response classes, justification classes), each class concretised by one witness on Ed25519",
    "computational soundness of Schnorr signatures, AES-GCM/HKDF and discrete log is assumed (a forged message is one signed with another key, not a cryptanalytic forgery)",
    "ground truth 'i approved' = a response signed with i's key for this session; a faulty verifier's key counts as that verifier",
    "Timeout is delivered at most once per aggregator; UnsafeSetResponseDKG is outside the model",
    "T is the session's threshold (NewDealer's t); a deal stating another in-range T is not judged (reported as observation)",
]


def code(n, t, variant, role, me=0):
    """configuration as the integer VSSAgg.tla decodes: 10000*variant + 1000*role + 100*N + 10*T + Me"""
    return 10000 * (variant == "rabin") + 1000 * (role == "dealer") + 100 * n + 10 * t + me


def both(n, t, role, me=0):
    return [code(n, t, v, role, me) for v in ("pedersen", "rabin")]


def consts(cfgs, gen="off", L=99, bug="none", menu="full", loopmod=1, salt=0):
    return {"Cfgs": "@{" + ", ".join(str(c) for c in sorted(cfgs)) + "}", "Gen": gen, "L": L, "ImplBug": bug, "Menu": menu,
            "LoopMod": loopmod, "LoopSalt": salt}


def mc(ctx, name, cfgs, menu="full", workers=3):
    """exhaustive check of the model: one initial state per configuration, VIEW hides last/hist"""
    return ctx.tlc("VSSAgg", cfg(constants=consts(cfgs, menu=menu), invariants=INVS, properties=PROPS_T, view="View"),
                   name="mc_" + name, workers=workers, java_opts=JOPTS)


def tour(ctx, name, cfgs, menu="full", workers=3, loopmod=1):
    """transition tour: VIEW hides last/hist; TLC prints every transition of the reduced graph once"""
    out = os.path.join(ctx.tmp, "tour_" + name + ".ndjson")
    run = ctx.tlc("VSSAgg", cfg(constants=consts(cfgs, gen="edge", menu=menu, loopmod=loopmod, salt=ctx.seed % loopmod), view="View",
                                 action_constraint="EmitEdge"),
                  name="tour_" + name, collect=out, workers=workers, java_opts=JOPTS)
    if run["behaviours"] == 0:
        raise Broken("tour produced no edges")
    return out


def sim(ctx, name, cfgs, num, depth, menu="full"):
    out = os.path.join(ctx.tmp, "sim_" + name + ".ndjson")
    run = ctx.tlc("VSSAgg", cfg(constants=consts(cfgs, gen="hist", L=depth, menu=menu), invariants=["Emit"]),
                  name="sim_" + name, collect=out, workers=1, simulate="num=%d" % num, depth=depth + 2, java_opts=JOPTS)
    if run["behaviours"] == 0:
        raise Broken("simulation produced no behaviours")
    return out


JOPTS = "-XX:ParallelGCThreads=2"


def sys_code(n, t, variant, maxf):
    return 1000 * (variant == "rabin") + 100 * n + 10 * t + maxf


def sys_mc(ctx, name, cfgs, workers=3):
    return ctx.tlc("VSSSystem", cfg(constants={"Cfgs": "@{" + ", ".join(map(str, sorted(cfgs))) + "}", "Gen": "off", "L": 0},
                                     invariants=["CertifiedSound", "NoBadApproval", "HonestCertifies"], properties=["BadSticky"], view="View"),
                   name="sysmc_" + name, workers=workers, java_opts=JOPTS)


def sys_gen(ctx, name, cfgs, L, simulate=None):
    out = os.path.join(ctx.tmp, "sys_" + name + ".ndjson")
    run = ctx.tlc("VSSSystem", cfg(constants={"Cfgs": "@{" + ", ".join(map(str, sorted(cfgs))) + "}", "Gen": "hist", "L": L},
                                    invariants=["Emit"]),
                  name="sysgen_" + name, collect=out, workers=1 if simulate else 3, simulate=simulate, depth=(L + 2) if simulate else None,
                  java_opts=JOPTS)
    if run["behaviours"] == 0:
        raise Broken("system generator %s produced no behaviours" % name)
    return out


def par(jobs, width=4):
    """runs thunks concurrently (TLC runs are independent processes); re-raises the first failure"""
    with ThreadPoolExecutor(max_workers=width) as ex:
        futs = [ex.submit(j) for j in jobs]
        return [f.result() for f in futs]


def spec_selftest(ctx):
    """the implementation-shaped layer with one repair switched off again must violate the requirement in TLC"""
    def one(bug):
        run = ctx.tlc("VSSAgg", cfg(constants=consts(both(4, 3, "verifier"), bug=bug), invariants=INVS,
                                     properties=PROPS_T, view="View"),
                      name="selftest_" + bug, workers=3, allow_violation=True)
        if not run["violated"]:
            raise Broken("self-test: the model of the unrepaired code (ImplBug=%s) satisfies every invariant -- the requirement layer is vacuous" % bug)
        return run
    par([(lambda b=b: one(b)) for b in ("nojustauth", "nocommitcheck", "nothrguard")], 3)


TRACE_CONSTS = {"Cfgs": "@{}", "Gen": "off", "L": 0, "ImplBug": "none", "Menu": "full", "LoopMod": 1, "LoopSalt": 0}


def validate(ctx, trace_file, name, allow_poke=False, strict=False):
    """trace validation (code -> spec) with spec/VSSAggTrace.tla; same TLC set-up as Ctx.tlc_validate, plus the
    statistics line the spec prints. Returns (accepted, rejected_at, stats)."""
    c = dict(TRACE_CONSTS, AllowPoke=allow_poke, Strict=strict)
    text = cfg(spec="TraceSpec", constants=c, constraint="Mark", postcondition="TraceAccepted")
    stats_file = os.path.join(ctx.tmp, name + ".stats")
    run = ctx.tlc("VSSAggTrace", text, name=name, workers=1, env={"TRACE_FILE": trace_file},
                  java_opts="-Dtlc2.tool.queue.IStateQueue=StateDeque " + JOPTS, allow_violation=True, collect=stats_file)
    stats = {}
    if os.path.exists(stats_file):
        for line in open(stats_file):
            try:
                stats = json.loads(line)
            except ValueError:
                pass
    if not run["violated"] and stats.get("reached") != stats.get("events"):
        raise Broken("trace validation %s: accepted but only %s of %s events reached" % (name, stats.get("reached"), stats.get("events")))
    return (not run["violated"]), run.get("rejected_at"), stats


def runs_of(path):
    """splits a trace file into runs (each starting with its reset event)"""
    runs = []
    for line in open(path):
        if not line.strip():
            continue
        e = json.loads(line)
        if e["ev"] == "reset" or not runs:
            runs.append([])
        runs[-1].append(e)
    return runs


def write_runs(runs, path):
    with open(path, "w") as f:
        for r in runs:
            for e in r:
                f.write(json.dumps(e) + "\n")
    return path


def validate_all(ctx, path, name, kind, allow_poke=False, max_rejections=6):
    """validates every run of a trace file; a rejected run becomes a violation (stable key from the offending
    event's abstract case) and is cut out so that the remaining runs are still validated"""
    runs = runs_of(path)
    total = len(runs)
    rejected = 0
    stats = {}
    for it in range(max_rejections + 1):
        if not runs:
            break
        f = write_runs(runs, os.path.join(ctx.tmp, "%s_%d.ndjson" % (name, it)))
        ok, at, stats = validate(ctx, f, "%s_%d" % (name, it), allow_poke=allow_poke)
        if ok:
            break
        if at is None:
            raise Broken("trace validation %s rejected without position" % name)
        # map the 1-based line number back to (run, event)
        n = 0
        hit = None
        for ri, r in enumerate(runs):
            if n + len(r) >= at:
                hit = (ri, at - n - 1)
                break
            n += len(r)
        if hit is None:
            raise Broken("trace validation %s: rejected_at %s beyond the trace" % (name, at))
        ri, ei = hit
        run = runs[ri]
        ev = run[ei]
        conf = run[0].get("args", {})
        a = ev.get("args", {})
        case = ev["ev"] + "".join(":" + str(a[k]) for k in ("kind", "cls", "st") if k in a)
        key = "C10/%s/%s/trace-%s/%s/rejected" % (conf.get("variant", ev.get("variant", "?")), conf.get("role", "?"), kind, case)
        ctx.violations.append({"key": key,
                               "what": "recorded %s run is not a behaviour VSSAggTrace allows: event %d (%s, ret=%s) rejected" % (kind, ei, case, ev.get("ret")),
                               "detail": {"trace_prefix": run[:ei + 1], "rejected_event": ev, "driver_seed": ctx.seed},
                               "driver": "record", "args": []})
        rejected += 1
        del runs[ri]
    else:
        log("trace validation %s: more than %d rejected runs, rest not validated" % (name, max_rejections))
    ctx.cov["traces_validated_against_impl"] += total - rejected if kind == "hook" else 0   # api runs are counted by the driver
    ctx.cov["extra"].setdefault("trace_validation", []).append(dict(stats, name=name, runs=total, rejected_runs=rejected))
    return total, rejected, stats


def hook_traces(ctx):
    """runs the repository's own tests with the `verif` hooks on; returns the demultiplexed trace file or None"""
    raw = os.path.join(ctx.tmp, "repo_hooks.ndjson")
    env = go_env()
    env["VERIF_TRACE_FILE"] = raw
    cmd = [go_bin(), "test", "-count=1", "-tags", "verif", "./share/vss/...", "./share/dkg/rabin/"]
    p = subprocess.run(cmd, cwd=REPO, env=env, capture_output=True, text=True, timeout=1200)
    have = os.path.exists(raw) and os.path.getsize(raw) > 0
    if p.returncode != 0:
        if not have or "[build failed]" in p.stdout + p.stderr:
            raise Broken("go test -tags verif ./share/vss/... did not run:\n" + (p.stdout + p.stderr)[-2000:])
        # failing assertions of the repository's tests are not this check's verdict; the runs recorded are still validated
        ctx.cov["extra"]["repo_tests_failed_under_verif_tag"] = (p.stdout + p.stderr)[-600:]
    if not have:
        ctx.cov["skipped"]["no verif hooks in tree"] = 1
        return None
    objs = {}
    for line in open(raw):
        try:
            e = json.loads(line)
        except ValueError:
            continue
        objs.setdefault(e["obj"], []).append(e)
    runs = []
    for o in sorted(objs):
        evs = sorted(objs[o], key=lambda e: e["seq"])
        runs.append([{"obj": o, "seq": 0, "ev": "reset", "ret": "ok",
                      "args": {"N": evs[0]["state"]["n"], "T": 0, "variant": evs[0]["variant"], "role": "verifier", "me": 0, "mode": "hook"}}]
                    + [dict(e, ret="ok") for e in evs])
    return write_runs(runs, os.path.join(ctx.tmp, "repo_hooks_demux.ndjson"))


def corrupt_selftest(ctx, api_file, hook_file):
    """binding demonstration: one corrupted recorded field => the trace must be rejected"""
    def must_reject(runs, name, allow_poke=False):
        f = write_runs(runs, os.path.join(ctx.tmp, name + ".ndjson"))
        ok, at, _ = validate(ctx, f, name, allow_poke=allow_poke)
        if ok:
            raise Broken("self-test %s: corrupted trace was accepted" % name)
        return at
    runs = runs_of(api_file)
    done = set()
    for r in runs:
        for i, e in enumerate(r):
            if e["ev"] == "reset":
                continue
            if "cert" not in done and e["state"]["certified"] == "false" and sum(v == "app" for v in e["state"]["resp"].values()) < r[0]["args"]["T"]:
                c = json.loads(json.dumps(r[:i + 1]))
                c[i]["state"]["certified"] = "true"
                must_reject([c], "selftest_corrupt_certified")
                done.add("cert")
            if "table" not in done and e["ev"] == "Response" and e["args"]["cls"] == "forged" and e["state"]["resp"][str(e["args"]["i"])] == "none":
                c = json.loads(json.dumps(r[:i + 1]))
                c[i]["state"]["resp"][str(e["args"]["i"])] = "app"
                must_reject([c], "selftest_corrupt_table")
                done.add("table")
            if "ret" not in done and e["ev"] == "Justification" and e["args"]["cls"] == "wrongshare" and e["ret"] == "error":
                c = json.loads(json.dumps(r[:i + 1]))
                c[i]["ret"] = "ok"
                must_reject([c], "selftest_corrupt_ret")
                done.add("ret")
    if hook_file:
        for r in runs_of(hook_file):
            for i, e in enumerate(r):
                if e["ev"] == "addResponse" and "hook" not in done:
                    c = json.loads(json.dumps(r[:i + 1]))
                    c[i]["state"]["resp"][str(e["args"]["index"])] = "comp" if e["args"]["approved"] else "app"
                    must_reject([c], "selftest_corrupt_hook", allow_poke=True)
                    done.add("hook")
    want = {"cert", "table", "ret"} | ({"hook"} if hook_file else set())
    if done != want:
        raise Broken("self-test: could not build corruptions %s" % sorted(want - done))
    ctx.cov["extra"]["binding_selftest"] = sorted(done)


def c10(ctx):
    q = ctx.quick
    binary = ctx.build(pkg="./cmd/vh-vss")
    api = os.path.join(ctx.tmp, "api_traces.ndjson")

    # stage A (concurrent): exhaustive check of the model, generators, recorders
    jobs = [("mc", lambda: mc(ctx, "small", both(3, 2, "verifier") + both(5, 3, "dealer"))),
            ("mc", lambda: mc(ctx, "n45core", both(4, 3, "verifier") + both(5, 3, "verifier", 4), menu="core")),
            ("tour", lambda: tour(ctx, "small", both(3, 2, "verifier") + both(4, 3, "dealer") + both(3, 3, "dealer"), loopmod=4 if q else 1)),
            ("sim", lambda: sim(ctx, "n5", both(5, 3, "verifier", 2) + both(5, 4, "dealer"), 10 if q else 300, 12)),
            ("sysmc", lambda: sys_mc(ctx, "n3", [sys_code(3, 2, v, 2) for v in ("pedersen", "rabin")])),
            ("sys", lambda: sys_gen(ctx, "sim", [sys_code(3, 2, v, 2) for v in ("pedersen", "rabin")] + [sys_code(4, 3, v, 2) for v in ("pedersen", "rabin")]
                                    + [sys_code(3, 3, v, 1) for v in ("pedersen", "rabin")]
                                    # honest dealer (MaxF = 0): every run ends certified => every T-subset goes through RecoverSecret
                                    + [sys_code(n, t, v, 0) for v in ("pedersen", "rabin") for (n, t) in ((3, 2), (4, 2), (4, 3), (5, 3), (5, 4))],
                                    11, simulate="num=%d" % (120 if q else 2000))),
            ("rec", lambda: ctx.run_vh("record", ["-traces", api, "-num", 150 if q else 1500, "-nmax", 5 if q else 7], binary=binary)),
            ("hooks", lambda: hook_traces(ctx))]
    if not q:
        jobs += [("mc", lambda: mc(ctx, "n4", both(4, 3, "verifier"))),
                 ("mc", lambda: mc(ctx, "n345", both(3, 3, "verifier", 2) + both(4, 2, "verifier", 3) + both(5, 3, "verifier") + both(5, 5, "verifier", 4))),
                 ("mc", lambda: mc(ctx, "n67", both(6, 4, "verifier") + both(7, 4, "verifier", 6) + both(7, 4, "dealer") + both(6, 2, "dealer"), menu="core")),
                 ("tour", lambda: tour(ctx, "n34", both(3, 3, "verifier", 2) + both(4, 3, "verifier", 1) + both(5, 3, "dealer"), loopmod=4)),
                 ("tour", lambda: tour(ctx, "n5core", both(5, 3, "verifier"), menu="core", loopmod=6)),
                 ("sim", lambda: sim(ctx, "n67", both(6, 4, "verifier", 5) + both(7, 4, "verifier") + both(7, 5, "verifier", 3) + both(7, 4, "dealer"), 300, 16)),
                 ("sysmc", lambda: sys_mc(ctx, "n4", [sys_code(4, 3, v, 1) for v in ("pedersen", "rabin")])),
                 ("sys", lambda: sys_gen(ctx, "honest3", [sys_code(3, 2, v, 0) for v in ("pedersen", "rabin")], 7)),
                 ("sys", lambda: sys_gen(ctx, "sim5", [sys_code(5, 3, v, 2) for v in ("pedersen", "rabin")], 13, simulate="num=400")),
                 ("selftest", lambda: spec_selftest(ctx))]
    outs = par([j for _, j in jobs], 6 if q else 5)
    tours = [o for (k, _), o in zip(jobs, outs) if k == "tour"]
    sims = [o for (k, _), o in zip(jobs, outs) if k == "sim"]
    syss = [o for (k, _), o in zip(jobs, outs) if k == "sys"]
    hooks = [o for (k, _), o in zip(jobs, outs) if k == "hooks"][0]

    # stage B (concurrent): spec -> code replays | code -> spec validations
    def replays():
        for f in tours:
            ctx.run_vh("replay", ["-in", f] + (["-percase", 12] if q else []), binary=binary)
        for f in sims:
            ctx.run_vh("replay", ["-in", f], binary=binary)
        for f in syss:
            ctx.run_vh("system", ["-in", f], binary=binary)
        ctx.run_vh("observe", [], binary=binary)
    stage_b = [replays, lambda: validate_all(ctx, api, "val_api", "api")]
    if hooks:
        stage_b.append(lambda: validate_all(ctx, hooks, "val_hooks", "hook", allow_poke=True))
    par(stage_b, 3)
    if not q:
        corrupt_selftest(ctx, api, hooks)
        if hooks:   # drift only: do the repository's own runs also match the implementation-shaped formulas exactly?
            ok, at, st = validate(ctx, hooks, "val_hooks_strict", allow_poke=True, strict=True)
            ctx.cov["extra"]["hooks_strict"] = {"accepted": ok, "rejected_at": at}

    return ctx.finish(
        "model_checking",
        "VSSAgg exhaustive (TLC) for n<=5 quick / n<=7 thorough, both variants, both roles; behaviours = transition tour of the per-observer model (one behaviour per (abstract state, action) pair) + seeded simulation for larger n; every step executed on a real Dealer/Verifier on Ed25519 and judged against the requirement facts TLC ships (allowed outcome set, must/must-not clear, must mark bad, ground-truth approvals, sound, must-certify)",
        ASSUME, exhaustive=False)


PROPS = {"C10": c10}
