#!/bin/sh
# tools/runall.sh <tier> <seed> [props...] : run checks sequentially, one summary line each
tier=${1:-quick}; seed=${2:-1}; shift; shift
props=${*:-C01 C02 C03 C04 C05 C06 C07 C08 C09 C10 C11 C12 C13 C14 C15 C16 C17 C18 C19 C20}
cd "$(dirname "$0")/.."
for p in $props; do
  s=$(date +%s)
  VERIF_SEED=$seed ./check $p --tier $tier > /tmp/runall-$tier-$seed-$p.log 2>&1; rc=$?
  e=$(date +%s)
  echo "$p tier=$tier seed=$seed rc=$rc wall=$((e-s))s $(grep -c '^VIOLATION' /tmp/runall-$tier-$seed-$p.log) violations $(grep -c '^KNOWN-FINDING' /tmp/runall-$tier-$seed-$p.log) known"
  [ $rc -ne 0 ] && grep -v "^\[check\] \(tlc\|built\|driver\)" /tmp/runall-$tier-$seed-$p.log | tail -n 6 | cut -c1-300
done
